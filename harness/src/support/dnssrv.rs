//! Helpers for the iroh-dns-server checks (C36–C39): harness-side pkarr packet building and
//! signing (independent BEP44 signable), a black-box server launcher on loopback, a minimal
//! HTTP/1.1 client, a DNS query builder and an independent DNS response parser.

use std::{
    net::{IpAddr, Ipv4Addr, SocketAddr},
    path::PathBuf,
    sync::atomic::{AtomicU64, Ordering},
    time::Duration,
};

use iroh_base::SecretKey;
use serde::{Deserialize, Serialize};
use tokio::{
    io::{AsyncReadExt, AsyncWriteExt},
    net::{TcpStream, UdpSocket},
};

use crate::{engine, support::gens};

/// First origin of `Config::default()`; the second one is the root (`.`).
pub const ORIGIN: &str = "irohdns.example";

/// A fixed base timestamp (µs since the epoch, 2023-11-14); packet timestamps are small offsets
/// from it so no check reads the wall clock.
pub const T0: u64 = 1_700_000_000_000_000;

pub const TYPE_A: u16 = 1;
pub const TYPE_NS: u16 = 2;
pub const TYPE_CNAME: u16 = 5;
pub const TYPE_SOA: u16 = 6;
pub const TYPE_TXT: u16 = 16;
pub const TYPE_AAAA: u16 = 28;
pub const TYPE_ANY: u16 = 255;

/// `VERIF_PART=<name>` restricts a check to one of its parts (used for sensitivity runs).
pub fn part_enabled(name: &str) -> bool {
    std::env::var("VERIF_PART").map(|p| p == name).unwrap_or(true)
}

// ---------------------------------------------------------------- keys

/// Deterministic secret key number `idx` of the case with this `seed`.
pub fn secret(seed: u64, idx: u32) -> SecretKey {
    let mut h = blake3::Hasher::new();
    h.update(b"iroh-verif dns key");
    h.update(&seed.to_le_bytes());
    h.update(&idx.to_le_bytes());
    SecretKey::from_bytes(h.finalize().as_bytes())
}

/// z-base-32 of a public key, by the harness' own encoder.
pub fn z32(pk: &[u8; 32]) -> String {
    gens::b32_encode(gens::ZBASE32, pk)
}

// ---------------------------------------------------------------- records

/// Record data the harness can put into a packet.
#[derive(Debug, Clone, PartialEq, Eq, PartialOrd, Ord, Hash, Serialize, Deserialize)]
pub enum RD {
    A([u8; 4]),
    Aaaa([u8; 16]),
    Txt(String),
    Cname(String),
    Ns(String),
    Soa { mname: String, rname: String, serial: u32 },
}

impl RD {
    pub fn rtype(&self) -> u16 {
        match self {
            RD::A(_) => TYPE_A,
            RD::Aaaa(_) => TYPE_AAAA,
            RD::Txt(_) => TYPE_TXT,
            RD::Cname(_) => TYPE_CNAME,
            RD::Ns(_) => TYPE_NS,
            RD::Soa { .. } => TYPE_SOA,
        }
    }

    /// Canonical rdata bytes, comparable with [`DnsMsg`] records.
    pub fn canon(&self) -> Vec<u8> {
        match self {
            RD::A(a) => a.to_vec(),
            RD::Aaaa(a) => a.to_vec(),
            RD::Txt(s) => {
                let mut v = vec![s.len() as u8];
                v.extend_from_slice(s.as_bytes());
                v
            }
            RD::Cname(n) | RD::Ns(n) => canon_name(n).into_bytes(),
            RD::Soa { mname, rname, serial } => {
                canon_soa(&canon_name(mname), &canon_name(rname), *serial, SOA_FIXED)
            }
        }
    }
}

/// refresh, retry, expire, minimum used for generated SOA records.
const SOA_FIXED: [u32; 4] = [7200, 600, 86400, 60];

fn canon_soa(mname: &str, rname: &str, serial: u32, rest: [u32; 4]) -> Vec<u8> {
    let mut v = mname.as_bytes().to_vec();
    v.push(0);
    v.extend_from_slice(rname.as_bytes());
    v.push(0);
    v.extend_from_slice(&serial.to_be_bytes());
    for x in rest {
        v.extend_from_slice(&x.to_be_bytes());
    }
    v
}

/// Lower case, no trailing dot.
pub fn canon_name(n: &str) -> String {
    n.trim_end_matches('.').to_ascii_lowercase()
}

/// One record of a packet: full owner name (dotted, no trailing dot) and data.
#[derive(Debug, Clone, PartialEq, Eq, PartialOrd, Ord, Hash, Serialize, Deserialize)]
pub struct Rec {
    pub owner: String,
    pub ttl: u32,
    pub rd: RD,
}

/// (owner lower case without trailing dot, type, canonical rdata)
pub type CanonRec = (String, u16, Vec<u8>);

/// Encodes the records as the answer section of a DNS reply, with simple-dns.
pub fn build_dns(records: &[Rec], compressed: bool) -> Vec<u8> {
    use simple_dns::{CLASS, Name, Packet, ResourceRecord, rdata};
    let mut packet = Packet::new_reply(0);
    for r in records {
        let name = Name::new_unchecked(&r.owner).into_owned();
        let rdata = match &r.rd {
            RD::A(a) => rdata::RData::A(rdata::A { address: u32::from_be_bytes(*a) }),
            RD::Aaaa(a) => rdata::RData::AAAA(rdata::AAAA { address: u128::from_be_bytes(*a) }),
            RD::Txt(s) => {
                let mut t = rdata::TXT::new();
                t.add_string(s).expect("short txt");
                rdata::RData::TXT(t.into_owned())
            }
            RD::Cname(n) => rdata::RData::CNAME(rdata::CNAME(Name::new_unchecked(n).into_owned())),
            RD::Ns(n) => rdata::RData::NS(rdata::NS(Name::new_unchecked(n).into_owned())),
            RD::Soa { mname, rname, serial } => rdata::RData::SOA(rdata::SOA {
                mname: Name::new_unchecked(mname).into_owned(),
                rname: Name::new_unchecked(rname).into_owned(),
                serial: *serial,
                refresh: SOA_FIXED[0] as i32,
                retry: SOA_FIXED[1] as i32,
                expire: SOA_FIXED[2] as i32,
                minimum: SOA_FIXED[3],
            }),
        };
        packet.answers.push(ResourceRecord::new(name, CLASS::IN, r.ttl, rdata));
    }
    if compressed {
        packet.build_bytes_vec_compressed().expect("dns encoding")
    } else {
        packet.build_bytes_vec().expect("dns encoding")
    }
}

// ---------------------------------------------------------------- signing

/// The BEP44 signable of a pkarr packet, written from the specification:
/// `3:seqi<ts>e1:v<len>:<dns bytes>`.
pub fn signable(ts: u64, dns: &[u8]) -> Vec<u8> {
    let mut s = Vec::with_capacity(dns.len() + 40);
    s.extend_from_slice(b"3:seqi");
    s.extend_from_slice(ts.to_string().as_bytes());
    s.extend_from_slice(b"e1:v");
    s.extend_from_slice(dns.len().to_string().as_bytes());
    s.push(b':');
    s.extend_from_slice(dns);
    s
}

/// Relay payload `<64 signature><8 BE timestamp><dns>` signed by `sk`.
pub fn sign_payload(sk: &SecretKey, ts: u64, dns: &[u8]) -> Vec<u8> {
    let sig = sk.sign(&signable(ts, dns));
    let mut out = Vec::with_capacity(72 + dns.len());
    out.extend_from_slice(&sig.to_bytes());
    out.extend_from_slice(&ts.to_be_bytes());
    out.extend_from_slice(dns);
    out
}

/// Full packet bytes `<32 key><payload>`.
pub fn full_packet(pk: &[u8; 32], payload: &[u8]) -> Vec<u8> {
    let mut v = pk.to_vec();
    v.extend_from_slice(payload);
    v
}

/// The order "more recent" of the property statements: by timestamp, ties by the dns bytes.
pub fn newer(a: (u64, &[u8]), b: (u64, &[u8])) -> bool {
    a.0 > b.0 || (a.0 == b.0 && a.1 > b.1)
}

// ---------------------------------------------------------------- scratch dirs

static DIR_COUNTER: AtomicU64 = AtomicU64::new(0);

/// A fresh directory under `<verif root>/scratch/dnssrv/`.
pub fn fresh_dir(tag: &str) -> PathBuf {
    let n = DIR_COUNTER.fetch_add(1, Ordering::Relaxed);
    let d = engine::verif_root()
        .join("scratch")
        .join("dnssrv")
        .join(format!("{tag}-{}-{n}", std::process::id()));
    let _ = std::fs::remove_dir_all(&d);
    std::fs::create_dir_all(&d).expect("create scratch dir");
    d
}

/// A store configuration in which neither eviction nor batch timeouts depend on the clock:
/// retention longer than the time since the epoch, eviction checks once per day.
pub fn quiet_store_config() -> iroh_dns_server::config::StoreConfig {
    let mut sc = iroh_dns_server::config::StoreConfig::default();
    sc.eviction = Duration::from_secs(3600 * 24 * 365 * 100);
    sc.eviction_interval = Duration::from_secs(3600 * 24);
    sc
}

// ---------------------------------------------------------------- server

/// The real server (`Server::bind(Config)`) on 127.0.0.1, ephemeral ports, rate limiting
/// disabled, no https, no metrics, no mainline.
pub struct TestServer {
    server: Option<iroh_dns_server::Server>,
    pub http: SocketAddr,
    pub dns: SocketAddr,
    dir: PathBuf,
}

impl TestServer {
    pub async fn start(tag: &str) -> TestServer {
        use iroh_dns_server::config::{Config, MetricsConfig, RateLimitConfig};
        let t0 = std::time::Instant::now();
        let dir = fresh_dir(tag);
        let mut config = Config::default();
        let lo = IpAddr::V4(Ipv4Addr::LOCALHOST);
        config.dns.port = 0;
        config.dns.bind_addr = Some(lo);
        let http = config.http.as_mut().expect("default http config");
        http.port = 0;
        http.bind_addr = Some(lo);
        config.https = None;
        config.metrics = Some(MetricsConfig::disabled());
        config.mainline = None;
        config.pkarr_put_rate_limit = RateLimitConfig::Disabled;
        config.zone_store = Some(quiet_store_config());
        config.data_dir = Some(dir.clone());
        let server = match iroh_dns_server::Server::bind(config).await {
            Ok(s) => s,
            Err(e) => {
                eprintln!("HARNESS: cannot start iroh-dns-server: {e:?}");
                std::process::exit(2);
            }
        };
        let http = server.http_addr().expect("http bound");
        let dns = server.dns_addr();
        if std::env::var("VERIF_TIMING").is_ok() {
            eprintln!("server start {:?}", t0.elapsed());
        }
        TestServer { server: Some(server), http, dns, dir }
    }

    pub async fn stop(mut self) {
        let t0 = std::time::Instant::now();
        if let Some(s) = self.server.take() {
            let _ = s.shutdown().await;
        }
        let _ = std::fs::remove_dir_all(&self.dir);
        if std::env::var("VERIF_TIMING").is_ok() {
            eprintln!("server stop {:?}", t0.elapsed());
        }
    }
}

impl Drop for TestServer {
    fn drop(&mut self) {
        let _ = std::fs::remove_dir_all(&self.dir);
    }
}

// ---------------------------------------------------------------- HTTP

/// Detector bound for one request on loopback (expected: well under 10 ms).
const IO_TIMEOUT: Duration = Duration::from_secs(60);

fn inconclusive(what: &str) -> ! {
    eprintln!("HARNESS: {what}; inconclusive");
    std::process::exit(2)
}

/// Minimal HTTP/1.1 client (one connection per request).
pub struct Http {
    addr: SocketAddr,
    stream: Option<TcpStream>,
}

pub struct HttpResp {
    pub status: u16,
    pub body: Vec<u8>,
}

impl Http {
    pub fn new(addr: SocketAddr) -> Self {
        Http { addr, stream: None }
    }

    pub async fn request(&mut self, method: &str, path: &str, ctype: Option<&str>, body: &[u8]) -> HttpResp {
        for attempt in 0..3 {
            match tokio::time::timeout(IO_TIMEOUT, self.try_request(method, path, ctype, body)).await {
                Ok(Ok(r)) => return r,
                Ok(Err(e)) => {
                    // a stale keep-alive connection: reconnect and repeat (requests are idempotent)
                    self.stream = None;
                    if attempt == 2 {
                        inconclusive(&format!("http {method} {path} failed: {e}"));
                    }
                }
                Err(_) => inconclusive(&format!("http {method} {path}: no response within {IO_TIMEOUT:?}")),
            }
        }
        unreachable!()
    }

    async fn try_request(&mut self, method: &str, path: &str, ctype: Option<&str>, body: &[u8]) -> std::io::Result<HttpResp> {
        if self.stream.is_none() {
            let s = TcpStream::connect(self.addr).await?;
            s.set_nodelay(true)?;
            self.stream = Some(s);
        }
        let s = self.stream.as_mut().unwrap();
        // One connection per request: on a kept-alive connection the server's separate writes of
        // response head and body run into Nagle + delayed ACK (40 ms per request on loopback).
        let mut req = format!("{method} {path} HTTP/1.1\r\nHost: localhost\r\nConnection: close\r\nContent-Length: {}\r\n", body.len());
        if let Some(ct) = ctype {
            req.push_str(&format!("Content-Type: {ct}\r\n"));
        }
        req.push_str("\r\n");
        let mut out = req.into_bytes();
        out.extend_from_slice(body);
        s.write_all(&out).await?;
        // head
        let mut buf: Vec<u8> = Vec::with_capacity(2048);
        let head_end = loop {
            if let Some(p) = find(&buf, b"\r\n\r\n") {
                break p + 4;
            }
            let mut tmp = [0u8; 2048];
            let n = s.read(&mut tmp).await?;
            if n == 0 {
                return Err(std::io::Error::new(std::io::ErrorKind::UnexpectedEof, "eof in head"));
            }
            buf.extend_from_slice(&tmp[..n]);
        };
        let head = String::from_utf8_lossy(&buf[..head_end]).to_string();
        let mut lines = head.split("\r\n");
        let status: u16 = lines
            .next()
            .and_then(|l| l.split(' ').nth(1))
            .and_then(|c| c.parse().ok())
            .ok_or_else(|| std::io::Error::new(std::io::ErrorKind::InvalidData, "bad status line"))?;
        let mut content_length: Option<usize> = None;
        let mut chunked = false;
        let mut close = false;
        for l in lines {
            let Some((k, v)) = l.split_once(':') else { continue };
            let k = k.trim().to_ascii_lowercase();
            let v = v.trim().to_ascii_lowercase();
            match k.as_str() {
                "content-length" => content_length = v.parse().ok(),
                "transfer-encoding" => chunked = v.contains("chunked"),
                "connection" => close = v.contains("close"),
                _ => {}
            }
        }
        let mut rest = buf[head_end..].to_vec();
        let body = if status == 204 || status == 304 || (100..200).contains(&status) {
            vec![]
        } else if chunked {
            let mut body = vec![];
            loop {
                let line_end = loop {
                    if let Some(p) = find(&rest, b"\r\n") {
                        break p;
                    }
                    read_more(s, &mut rest).await?;
                };
                let size = usize::from_str_radix(String::from_utf8_lossy(&rest[..line_end]).split(';').next().unwrap_or("").trim(), 16)
                    .map_err(|_| std::io::Error::new(std::io::ErrorKind::InvalidData, "bad chunk size"))?;
                rest.drain(..line_end + 2);
                while rest.len() < size + 2 {
                    read_more(s, &mut rest).await?;
                }
                body.extend_from_slice(&rest[..size]);
                rest.drain(..size + 2);
                if size == 0 {
                    break;
                }
            }
            body
        } else if let Some(n) = content_length {
            while rest.len() < n {
                read_more(s, &mut rest).await?;
            }
            rest.truncate(n);
            rest
        } else {
            // delimited by close
            loop {
                let mut tmp = [0u8; 2048];
                let n = s.read(&mut tmp).await?;
                if n == 0 {
                    break;
                }
                rest.extend_from_slice(&tmp[..n]);
            }
            close = true;
            rest
        };
        let _ = close;
        self.stream = None;
        Ok(HttpResp { status, body })
    }

    pub async fn pkarr_put(&mut self, z32: &str, payload: &[u8]) -> HttpResp {
        self.request("PUT", &format!("/pkarr/{z32}"), None, payload).await
    }

    pub async fn pkarr_get(&mut self, z32: &str) -> HttpResp {
        self.request("GET", &format!("/pkarr/{z32}"), None, &[]).await
    }

    /// DNS over HTTPS endpoint (plain http here), POST with the wire-format query.
    pub async fn doh(&mut self, name: &str, qtype: u16, id: u16) -> DnsMsg {
        let q = build_query(id, name, qtype, false);
        let r = self.request("POST", "/dns-query", Some("application/dns-message"), &q).await;
        if r.status != 200 {
            inconclusive(&format!("DoH POST for {name}/{qtype} returned status {}", r.status));
        }
        match parse_msg(&r.body) {
            Some(m) => m,
            None => inconclusive("DoH response does not parse as a DNS message"),
        }
    }
}

async fn read_more(s: &mut TcpStream, buf: &mut Vec<u8>) -> std::io::Result<()> {
    let mut tmp = [0u8; 2048];
    let n = s.read(&mut tmp).await?;
    if n == 0 {
        return Err(std::io::Error::new(std::io::ErrorKind::UnexpectedEof, "eof in body"));
    }
    buf.extend_from_slice(&tmp[..n]);
    Ok(())
}

fn find(h: &[u8], n: &[u8]) -> Option<usize> {
    h.windows(n.len()).position(|w| w == n)
}

// ---------------------------------------------------------------- DNS

/// A standard query for `name`/`qtype`, class IN; with `edns` an OPT record announcing a
/// 4096-byte UDP payload is appended.
pub fn build_query(id: u16, name: &str, qtype: u16, edns: bool) -> Vec<u8> {
    let mut q = Vec::with_capacity(64);
    q.extend_from_slice(&id.to_be_bytes());
    q.extend_from_slice(&[0x00, 0x00]); // standard query, no recursion desired
    q.extend_from_slice(&1u16.to_be_bytes());
    q.extend_from_slice(&0u16.to_be_bytes());
    q.extend_from_slice(&0u16.to_be_bytes());
    q.extend_from_slice(&(edns as u16).to_be_bytes());
    for l in name.split('.').filter(|l| !l.is_empty()) {
        assert!(l.len() < 64);
        q.push(l.len() as u8);
        q.extend_from_slice(l.as_bytes());
    }
    q.push(0);
    q.extend_from_slice(&qtype.to_be_bytes());
    q.extend_from_slice(&1u16.to_be_bytes());
    if edns {
        q.push(0);
        q.extend_from_slice(&41u16.to_be_bytes());
        q.extend_from_slice(&4096u16.to_be_bytes());
        q.extend_from_slice(&0u32.to_be_bytes());
        q.extend_from_slice(&0u16.to_be_bytes());
    }
    q
}

/// A parsed DNS message (independent parser; names lower-cased and decompressed).
#[derive(Debug, Clone, Default, PartialEq, Eq)]
pub struct DnsMsg {
    pub id: u16,
    pub rcode: u8,
    pub truncated: bool,
    pub answers: Vec<CanonRec>,
    pub authority: Vec<CanonRec>,
    pub additional: Vec<CanonRec>,
}

impl DnsMsg {
    pub fn all_records(&self) -> impl Iterator<Item = &CanonRec> {
        self.answers.iter().chain(self.authority.iter()).chain(self.additional.iter())
    }
}

fn parse_name(msg: &[u8], pos: &mut usize) -> Option<String> {
    let mut labels: Vec<String> = vec![];
    let mut p = *pos;
    let mut jumped = false;
    let mut hops = 0;
    loop {
        let len = *msg.get(p)? as usize;
        if len & 0xC0 == 0xC0 {
            let lo = *msg.get(p + 1)? as usize;
            if !jumped {
                *pos = p + 2;
            }
            jumped = true;
            p = ((len & 0x3F) << 8) | lo;
            hops += 1;
            if hops > 64 {
                return None;
            }
            continue;
        }
        if len & 0xC0 != 0 {
            return None;
        }
        if len == 0 {
            if !jumped {
                *pos = p + 1;
            }
            break;
        }
        let l = msg.get(p + 1..p + 1 + len)?;
        labels.push(String::from_utf8_lossy(l).to_ascii_lowercase());
        p += 1 + len;
    }
    Some(labels.join("."))
}

fn be16(msg: &[u8], p: usize) -> Option<u16> {
    Some(u16::from_be_bytes(msg.get(p..p + 2)?.try_into().ok()?))
}

pub fn parse_msg(msg: &[u8]) -> Option<DnsMsg> {
    let mut out = DnsMsg {
        id: be16(msg, 0)?,
        rcode: msg.get(3)? & 0x0F,
        truncated: msg.get(2)? & 0x02 != 0,
        ..Default::default()
    };
    let counts = [be16(msg, 4)?, be16(msg, 6)?, be16(msg, 8)?, be16(msg, 10)?];
    let mut p = 12;
    for _ in 0..counts[0] {
        parse_name(msg, &mut p)?;
        p += 4;
    }
    for (section, &n) in counts[1..].iter().enumerate() {
        for _ in 0..n {
            let owner = parse_name(msg, &mut p)?;
            let rtype = be16(msg, p)?;
            let rdlen = be16(msg, p + 8)? as usize;
            let start = p + 10;
            let rdata = msg.get(start..start + rdlen)?;
            p = start + rdlen;
            if rtype == 41 {
                continue; // OPT pseudo record
            }
            let canon = match rtype {
                TYPE_NS | TYPE_CNAME => {
                    let mut q = start;
                    parse_name(msg, &mut q)?.into_bytes()
                }
                TYPE_SOA => {
                    let mut q = start;
                    let mname = parse_name(msg, &mut q)?;
                    let rname = parse_name(msg, &mut q)?;
                    let tail = msg.get(q..q + 20)?;
                    let w = |i: usize| u32::from_be_bytes(tail[i * 4..i * 4 + 4].try_into().unwrap());
                    canon_soa(&mname, &rname, w(0), [w(1), w(2), w(3), w(4)])
                }
                _ => rdata.to_vec(),
            };
            let rec = (owner, rtype, canon);
            match section {
                0 => out.answers.push(rec),
                1 => out.authority.push(rec),
                _ => out.additional.push(rec),
            }
        }
    }
    Some(out)
}

static QUERY_ID: AtomicU64 = AtomicU64::new(1);

pub fn next_query_id() -> u16 {
    (QUERY_ID.fetch_add(1, Ordering::Relaxed) % 65521) as u16
}

/// One UDP query against `server`; repeats the datagram on a (generous) timeout.
pub async fn udp_query(sock: &UdpSocket, server: SocketAddr, name: &str, qtype: u16) -> DnsMsg {
    let id = next_query_id();
    let q = build_query(id, name, qtype, true);
    for _attempt in 0..3 {
        if let Err(e) = sock.send_to(&q, server).await {
            inconclusive(&format!("udp send failed: {e}"));
        }
        let deadline = tokio::time::Instant::now() + Duration::from_secs(20);
        loop {
            let mut buf = [0u8; 8192];
            match tokio::time::timeout_at(deadline, sock.recv_from(&mut buf)).await {
                Err(_) => break, // resend
                Ok(Err(e)) => inconclusive(&format!("udp recv failed: {e}")),
                Ok(Ok((n, from))) => {
                    if from != server {
                        continue;
                    }
                    let Some(m) = parse_msg(&buf[..n]) else {
                        inconclusive("udp response does not parse as a DNS message");
                    };
                    if m.id != id {
                        continue; // late answer to an earlier datagram
                    }
                    if m.truncated {
                        inconclusive("udp response truncated although EDNS 4096 was offered");
                    }
                    return m;
                }
            }
        }
    }
    inconclusive(&format!("no DNS answer for {name}/{qtype} after 3 datagrams x 20 s"))
}

pub async fn udp_socket() -> UdpSocket {
    match UdpSocket::bind((Ipv4Addr::LOCALHOST, 0)).await {
        Ok(s) => s,
        Err(e) => inconclusive(&format!("cannot bind udp socket: {e}")),
    }
}
