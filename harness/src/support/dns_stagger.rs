//! A scripted `iroh_dns::dns::Resolver`: the k-th call of each family (A / AAAA / TXT) gets the
//! k-th scripted step; every call is logged with the virtual time at which it was made.
//! Used by C34 (staggered lookups) and C35 (dual-stack host resolution).

use std::{
    net::{IpAddr, Ipv4Addr, Ipv6Addr},
    sync::{
        Arc, Mutex,
        atomic::{AtomicUsize, Ordering},
    },
    time::Duration,
};

use iroh_dns::dns::{BoxIter, DnsError, Resolver, TxtRecordData};
use n0_error::{anyerr, e};
use n0_future::boxed::BoxFuture;
use serde::{Deserialize, Serialize};

#[derive(Debug, Clone, Copy, PartialEq, Eq, Hash, Serialize, Deserialize)]
pub enum Fam {
    V4,
    V6,
    Txt,
}

impl Fam {
    pub fn index(self) -> usize {
        match self {
            Fam::V4 => 0,
            Fam::V6 => 1,
            Fam::Txt => 2,
        }
    }
}

/// What a scripted call answers.
#[derive(Debug, Clone, Copy, PartialEq, Eq, Serialize, Deserialize)]
pub enum Reply {
    /// `n` addresses (or `n` well-formed TXT records) that encode the call index.
    Ok { n: u8 },
    /// TXT only: one record that is not `key=value` (for the IP families this is an error).
    Garbage,
    /// A resolver error that carries the call index in its message.
    Err,
}

/// One scripted call: the reply and after how many (virtual) milliseconds it arrives;
/// `None` never answers.
#[derive(Debug, Clone, Copy, PartialEq, Eq, Serialize, Deserialize)]
pub struct Step {
    pub reply: Reply,
    pub after_ms: Option<u64>,
}

#[derive(Debug, Clone, Default)]
pub struct Script {
    pub v4: Vec<Step>,
    pub v6: Vec<Step>,
    pub txt: Vec<Step>,
}

impl Script {
    pub fn steps(&self, fam: Fam) -> &[Step] {
        match fam {
            Fam::V4 => &self.v4,
            Fam::V6 => &self.v6,
            Fam::Txt => &self.txt,
        }
    }
}

#[derive(Debug, Clone, PartialEq, Eq)]
pub struct Call {
    pub fam: Fam,
    /// index of this call among the calls of its family
    pub idx: usize,
    /// virtual milliseconds since the resolver was created
    pub at_ms: u64,
    pub host: String,
}

#[derive(Debug)]
struct Shared {
    script: Script,
    log: Mutex<Vec<Call>>,
    counters: [AtomicUsize; 3],
    resets: AtomicUsize,
    t0: tokio::time::Instant,
}

/// Cloneable handle; `reset()` hands out a clone that shares the script position and log.
#[derive(Debug, Clone)]
pub struct ScriptedResolver {
    shared: Arc<Shared>,
}

pub fn v4_addr(idx: usize, j: u8) -> Ipv4Addr {
    Ipv4Addr::new(10, 4, idx as u8, j)
}

pub fn v6_addr(idx: usize, j: u8) -> Ipv6Addr {
    Ipv6Addr::new(0xfd00, 0, 0, 0, 0, 6, idx as u16, j as u16)
}

/// The TXT record strings of the `idx`-th TXT call answering `Ok { n }`.
pub fn txt_strings(idx: usize, n: u8) -> Vec<String> {
    (0..n).map(|j| format!("addr=10.7.{}.{}:{}", idx as u8, j, 7000 + idx)).collect()
}

pub fn err_message(fam: Fam, idx: usize) -> String {
    format!("scripted-error fam={fam:?} idx={idx}")
}

impl ScriptedResolver {
    /// Must be created inside the runtime whose (virtual) clock is to be used.
    pub fn new(script: Script) -> Self {
        Self {
            shared: Arc::new(Shared {
                script,
                log: Mutex::new(vec![]),
                counters: [AtomicUsize::new(0), AtomicUsize::new(0), AtomicUsize::new(0)],
                resets: AtomicUsize::new(0),
                t0: tokio::time::Instant::now(),
            }),
        }
    }

    pub fn calls(&self) -> Vec<Call> {
        self.shared.log.lock().unwrap().clone()
    }

    pub fn now_ms(&self) -> u64 {
        self.shared.t0.elapsed().as_millis() as u64
    }

    fn begin(&self, fam: Fam, host: String) -> (usize, Option<Step>) {
        let idx = self.shared.counters[fam.index()].fetch_add(1, Ordering::SeqCst);
        let at_ms = self.now_ms();
        self.shared.log.lock().unwrap().push(Call { fam, idx, at_ms, host });
        (idx, self.shared.script.steps(fam).get(idx).copied())
    }
}

async fn wait(step: Option<Step>) -> Option<Reply> {
    match step {
        // a call beyond the script: answer with an error at once (the oracle flags the extra call)
        None => None,
        Some(Step { after_ms: None, .. }) => std::future::pending().await,
        Some(Step { reply, after_ms: Some(ms) }) => {
            if ms > 0 {
                tokio::time::sleep(Duration::from_millis(ms)).await;
            }
            Some(reply)
        }
    }
}

impl Resolver for ScriptedResolver {
    fn lookup_ipv4(&self, host: String) -> BoxFuture<Result<BoxIter<Ipv4Addr>, DnsError>> {
        let (idx, step) = self.begin(Fam::V4, host);
        Box::pin(async move {
            match wait(step).await {
                Some(Reply::Ok { n }) => {
                    let v: Vec<Ipv4Addr> = (0..n).map(|j| v4_addr(idx, j)).collect();
                    Ok(Box::new(v.into_iter()) as BoxIter<Ipv4Addr>)
                }
                _ => Err(e!(DnsError::Resolve, anyerr!(err_message(Fam::V4, idx)))),
            }
        })
    }

    fn lookup_ipv6(&self, host: String) -> BoxFuture<Result<BoxIter<Ipv6Addr>, DnsError>> {
        let (idx, step) = self.begin(Fam::V6, host);
        Box::pin(async move {
            match wait(step).await {
                Some(Reply::Ok { n }) => {
                    let v: Vec<Ipv6Addr> = (0..n).map(|j| v6_addr(idx, j)).collect();
                    Ok(Box::new(v.into_iter()) as BoxIter<Ipv6Addr>)
                }
                _ => Err(e!(DnsError::Resolve, anyerr!(err_message(Fam::V6, idx)))),
            }
        })
    }

    fn lookup_txt(&self, host: String) -> BoxFuture<Result<BoxIter<TxtRecordData>, DnsError>> {
        let (idx, step) = self.begin(Fam::Txt, host);
        Box::pin(async move {
            let strings = match wait(step).await {
                Some(Reply::Ok { n }) => txt_strings(idx, n),
                Some(Reply::Garbage) => vec![format!("garbage-without-equals-sign-{idx}")],
                _ => return Err(e!(DnsError::Resolve, anyerr!(err_message(Fam::Txt, idx)))),
            };
            let v: Vec<TxtRecordData> = strings
                .into_iter()
                .map(|s| TxtRecordData::from(vec![s.into_bytes().into_boxed_slice()]))
                .collect();
            Ok(Box::new(v.into_iter()) as BoxIter<TxtRecordData>)
        })
    }

    fn clear_cache(&self) {}

    fn reset(&self) -> Box<dyn Resolver> {
        self.shared.resets.fetch_add(1, Ordering::SeqCst);
        Box::new(self.clone())
    }
}

/// Identity of an error as the scripted resolver (and the timeout layer) produced it.
#[derive(Debug, Clone, PartialEq, Eq, PartialOrd, Ord)]
pub enum ErrId {
    Scripted(String),
    Timeout,
    NoResponse,
    MissingHost,
    Both(Box<ErrId>, Box<ErrId>),
    Other(String),
}

pub fn err_id(e: &DnsError) -> ErrId {
    match e {
        DnsError::Timeout { .. } => ErrId::Timeout,
        DnsError::NoResponse { .. } => ErrId::NoResponse,
        DnsError::MissingHost { .. } => ErrId::MissingHost,
        DnsError::Resolve { source, .. } => {
            let s = source.to_string();
            match s.find("scripted-error") {
                Some(i) => {
                    let rest = &s[i..];
                    let end = rest.find('\n').unwrap_or(rest.len());
                    ErrId::Scripted(rest[..end].trim().to_string())
                }
                None => ErrId::Other(s),
            }
        }
        DnsError::ResolveBoth { ipv4, ipv6, .. } => ErrId::Both(Box::new(err_id(ipv4)), Box::new(err_id(ipv6))),
        other => ErrId::Other(format!("{other:?}")),
    }
}

pub fn ip_values(fam: Fam, idx: usize, n: u8) -> Vec<IpAddr> {
    (0..n)
        .map(|j| match fam {
            Fam::V4 => IpAddr::V4(v4_addr(idx, j)),
            _ => IpAddr::V6(v6_addr(idx, j)),
        })
        .collect()
}

/// Completion of one scripted resolver call under the per-call timeout.
/// `None`: latency equals the timeout (which of the two wins is not specified).
pub fn call_done(fam: Fam, idx: usize, start: u64, step: Step, timeout: u64) -> Option<(u64, Result<Vec<IpAddr>, ErrId>)> {
    match step.after_ms {
        Some(l) if l == timeout => None,
        Some(l) if l < timeout => Some((
            start + l,
            match step.reply {
                Reply::Ok { n } => Ok(match fam {
                    Fam::Txt => txt_strings(idx, n).iter().map(|s| s["addr=".len()..].parse::<std::net::SocketAddr>().unwrap().ip()).collect(),
                    _ => ip_values(fam, idx, n),
                }),
                Reply::Garbage if fam == Fam::Txt => Err(ErrId::Other("parse".into())),
                _ => Err(ErrId::Scripted(err_message(fam, idx))),
            },
        )),
        _ => Some((start + timeout, Err(ErrId::Timeout))),
    }
}

