//! Actor-level harness for C21 / C22(b): drives the real `RemoteMap` (and through it real
//! `RemoteStateActor` tasks) the way the socket actor does, on a fresh current-thread runtime
//! with a paused clock, and checks the observed trace against a reference model.
//!
//! Observations: (1) the reply (value + virtual instant) of every resolve request, collected by
//! one waiter task per request; (2) the add-only lifecycle events of the actors
//! (`remote_state:actor_start|handle|actor_stop`, each stamped with the virtual instant);
//! (3) replies to `RemoteInfo` requests.  The pause point `remote_state:before_close` lets a
//! history hold a stopping actor between its decision to stop and `inbox.close()`, which is the
//! window in which, on a multi-thread runtime, further messages land in the closing inbox.
//!
//! Time discipline: every harness step ends at an even millisecond; all lookup service delays
//! are odd, so a lookup event never shares an instant with a harness operation.  Within the
//! actor, messages queued at an instant are handled before a lookup event of the same instant
//! (the actor's `select!` is `biased` with the inbox first); the model uses the same order.

use std::{
    cell::RefCell,
    collections::BTreeMap,
    net::{Ipv4Addr, SocketAddr},
    sync::{Arc, Mutex, Once},
    time::Duration,
};

use iroh::{
    address_lookup::{AddressLookup, AddressLookupFailed, AddressLookupServices, EndpointInfo, Error as LookupError, Item},
    verif_remote::VerifRemoteMap,
};
use iroh_base::{EndpointAddr, EndpointId, TransportAddr};
use n0_future::boxed::BoxStream;
use proptest::prelude::*;
use serde::{Deserialize, Serialize};
use tokio::{
    sync::oneshot,
    time::{Instant, sleep},
};

use crate::{
    engine::{Ctx, ExploreOpts, Outcome, paused_rt},
    support::remote,
};

#[derive(Debug, Clone, Copy, PartialEq, Eq)]
pub enum Emphasis {
    /// idle shutdown / restart / hold interleavings (C21)
    Lifecycle,
    /// lookup service variety (C22 b)
    Lookup,
}

#[derive(Debug, Clone, Serialize, Deserialize)]
pub enum SvcSpec {
    /// one item after `delay_ms` carrying `n_addrs` IP addresses, for the asked or a wrong id
    Item { delay_ms: u32, n_addrs: u8, wrong_id: bool },
    /// one error after `delay_ms`
    Fail { delay_ms: u32 },
    /// ends after `delay_ms` without an item
    Empty { delay_ms: u32 },
    /// `resolve` returns `None`
    Unsupported,
}

#[derive(Debug, Clone, Serialize, Deserialize)]
pub enum Op {
    Resolve { remote: u8, with_addr: bool },
    RemoteInfo { remote: u8 },
    /// advance the virtual clock by `2 * half_ms` milliseconds
    Advance { half_ms: u32 },
    /// poll `RemoteMap::cleanup()` once
    Cleanup,
    /// the next actor of `remote` that decides to stop is held before `inbox.close()`
    HoldStop { remote: u8 },
    ReleaseStop,
}

#[derive(Debug, Clone, Serialize, Deserialize)]
pub struct Case {
    pub services: Vec<SvcSpec>,
    pub ops: Vec<Op>,
}

// ---------------------------------------------------------------------------------------------
// generators

fn odd_delay(emph: Emphasis) -> BoxedStrategy<u32> {
    match emph {
        Emphasis::Lifecycle => prop_oneof![3 => Just(1u32), 2 => Just(7), 1 => Just(501), 1 => Just(60_001), 1 => Just(130_001)].boxed(),
        Emphasis::Lookup => prop_oneof![2 => Just(1u32), 2 => Just(7), 2 => Just(33), 2 => Just(501), 2 => Just(2_001), 1 => Just(59_999), 1 => Just(60_001), 1 => (0u32..3_000).prop_map(|x| 2 * x + 1)].boxed(),
    }
}

fn svc(emph: Emphasis) -> impl Strategy<Value = SvcSpec> {
    let d = odd_delay(emph);
    prop_oneof![
        5 => (d.clone(), prop_oneof![3 => 1u8..3, 1 => Just(0u8)], prop::bool::weighted(0.15)).prop_map(|(delay_ms, n_addrs, wrong_id)| SvcSpec::Item { delay_ms, n_addrs, wrong_id }),
        2 => d.clone().prop_map(|delay_ms| SvcSpec::Fail { delay_ms }),
        2 => d.prop_map(|delay_ms| SvcSpec::Empty { delay_ms }),
        1 => Just(SvcSpec::Unsupported),
    ]
}

fn op(emph: Emphasis) -> BoxedStrategy<Op> {
    let remote = prop_oneof![3 => Just(0u8), 1 => Just(1u8)];
    match emph {
        Emphasis::Lifecycle => prop_oneof![
            8 => (remote.clone(), prop::bool::weighted(0.7)).prop_map(|(remote, with_addr)| Op::Resolve { remote, with_addr }),
            1 => remote.clone().prop_map(|remote| Op::RemoteInfo { remote }),
            // around the 60 s idle timeout, and well past it
            6 => prop_oneof![Just(29_995u32), Just(30_000), Just(30_005), Just(32_500), Just(65_000), Just(1), Just(500), Just(15_000)].prop_map(|half_ms| Op::Advance { half_ms }),
            3 => Just(Op::Cleanup),
            3 => remote.prop_map(|remote| Op::HoldStop { remote }),
            2 => Just(Op::ReleaseStop),
        ]
        .boxed(),
        Emphasis::Lookup => prop_oneof![
            8 => (remote.clone(), prop::bool::weighted(0.2)).prop_map(|(remote, with_addr)| Op::Resolve { remote, with_addr }),
            1 => remote.clone().prop_map(|remote| Op::RemoteInfo { remote }),
            6 => prop_oneof![Just(1u32), Just(3), Just(16), Just(250), Just(1_000), Just(30_000), Just(32_500)].prop_map(|half_ms| Op::Advance { half_ms }),
            1 => Just(Op::Cleanup),
            1 => remote.prop_map(|remote| Op::HoldStop { remote }),
            1 => Just(Op::ReleaseStop),
        ]
        .boxed(),
    }
}

pub fn strategy(emph: Emphasis) -> impl Strategy<Value = Case> {
    let n_svc = match emph {
        Emphasis::Lifecycle => prop_oneof![3 => Just(0usize), 2 => Just(1usize), 1 => Just(2usize)].boxed(),
        Emphasis::Lookup => prop_oneof![1 => Just(0usize), 3 => Just(1usize), 3 => Just(2usize), 2 => Just(3usize)].boxed(),
    };
    (
        n_svc.prop_flat_map(move |n| proptest::collection::vec(svc(emph), n..=n)),
        proptest::collection::vec(op(emph), 1..28),
    )
        .prop_map(|(services, ops)| Case { services, ops })
}

// ---------------------------------------------------------------------------------------------
// hook plumbing: one process-global handler pair that records into thread-local state, so that
// each worker thread (one case at a time, current-thread runtime) has its own log.

#[derive(Debug, Clone)]
struct Event {
    t_us: u64,
    name: String,
    detail: String,
}

#[derive(Default)]
struct Tls {
    base: Option<Instant>,
    log: Vec<Event>,
    /// remote ids (string form) whose next stopping actor is to be held
    armed: Vec<String>,
    /// senders that release held actors
    held: Vec<(String, oneshot::Sender<()>)>,
}

thread_local! {
    static TLS: RefCell<Tls> = RefCell::new(Tls::default());
}

fn now_us(base: Option<Instant>) -> u64 {
    match base {
        Some(b) => Instant::now().saturating_duration_since(b).as_micros() as u64,
        None => 0,
    }
}

fn record(name: &str, detail: &str) {
    TLS.with(|t| {
        let mut t = t.borrow_mut();
        if t.base.is_some() {
            let t_us = now_us(t.base);
            t.log.push(Event { t_us, name: name.to_string(), detail: detail.to_string() });
        }
    });
}

fn install_handlers() {
    static ONCE: Once = Once::new();
    ONCE.call_once(|| {
        iroh_base::verif_hooks::set_sync_handler(Some(Arc::new(|name: &str, detail: &str| {
            if name.starts_with("remote_state:") {
                record(name, detail);
            }
        })));
        iroh_base::verif_hooks::set_async_handler(Some(Arc::new(|name: &str, detail: &str| {
            if name != "remote_state:before_close" {
                return None;
            }
            let id = detail.split(' ').next().unwrap_or("").to_string();
            let rx = TLS.with(|t| {
                let mut t = t.borrow_mut();
                t.base?;
                let pos = t.armed.iter().position(|a| *a == id)?;
                t.armed.remove(pos);
                let (tx, rx) = oneshot::channel::<()>();
                t.held.push((id.clone(), tx));
                Some(rx)
            })?;
            record("harness:held", detail);
            let detail = detail.to_string();
            Some(Box::pin(async move {
                let _ = rx.await;
                record("harness:released", &detail);
            }) as iroh_base::verif_hooks::PointFuture)
        })));
    });
}

// ---------------------------------------------------------------------------------------------
// harness-defined lookup service

#[derive(Debug)]
struct Svc {
    spec: SvcSpec,
    index: usize,
}

fn svc_addrs(index: usize, id: EndpointId, n: u8) -> Vec<SocketAddr> {
    (0..n)
        .map(|k| SocketAddr::from((Ipv4Addr::new(10, 9, index as u8, id.as_bytes()[0]), 7000 + k as u16)))
        .collect()
}

impl AddressLookup for Svc {
    fn resolve(&self, endpoint_id: EndpointId) -> Option<BoxStream<Result<Item, LookupError>>> {
        use n0_future::StreamExt;
        let index = self.index;
        match self.spec.clone() {
            SvcSpec::Unsupported => None,
            SvcSpec::Item { delay_ms, n_addrs, wrong_id } => Some(Box::pin(n0_future::stream::once_future(async move {
                sleep(Duration::from_millis(delay_ms as u64)).await;
                let id = if wrong_id { remote::endpoint_id(200) } else { endpoint_id };
                let info = EndpointInfo::new(id).with_ip_addrs(svc_addrs(index, endpoint_id, n_addrs));
                Ok(Item::new(info, "verif-svc", None))
            }))),
            SvcSpec::Fail { delay_ms } => Some(Box::pin(n0_future::stream::once_future(async move {
                sleep(Duration::from_millis(delay_ms as u64)).await;
                Err(LookupError::from_err("verif-svc", std::io::Error::other("scripted failure")))
            }))),
            SvcSpec::Empty { delay_ms } => Some(Box::pin(
                n0_future::stream::once_future(async move {
                    sleep(Duration::from_millis(delay_ms as u64)).await;
                })
                .filter_map(|()| None::<Result<Item, LookupError>>),
            )),
        }
    }
}

// ---------------------------------------------------------------------------------------------
// running one history

#[derive(Debug, Clone, Copy, PartialEq, Eq)]
pub enum Reply {
    Ok,
    NoResults,
    NoServiceConfigured,
    /// the reply sender was dropped without a value
    Dropped,
}

fn classify(r: &Result<Result<(), AddressLookupFailed>, oneshot::error::RecvError>) -> Reply {
    match r {
        Ok(Ok(())) => Reply::Ok,
        Ok(Err(AddressLookupFailed::NoServiceConfigured { .. })) => Reply::NoServiceConfigured,
        Ok(Err(_)) => Reply::NoResults,
        Err(_) => Reply::Dropped,
    }
}

struct Sent {
    remote: u8,
    /// distinguishing port if the request carried an address
    tag: Option<u16>,
    op_index: usize,
    t_sent_us: u64,
}

struct InfoSent {
    remote: u8,
    rx: oneshot::Receiver<iroh::endpoint::RemoteInfo>,
}

struct Trace {
    events: Vec<Event>,
    sent: Vec<Sent>,
    /// (request index, instant, reply)
    replies: Vec<(usize, u64, Reply)>,
    /// per RemoteInfo request that was accepted: (remote, number of addrs or None if no reply)
    infos: Vec<(u8, Option<usize>)>,
    holds_armed: usize,
    /// a call into the map (as the socket actor makes it) that did not return within an hour
    /// of virtual time: (op index, what)
    blocked: Option<(usize, String)>,
}

const MAX_QUEUED_WHILE_HELD: usize = 10;

fn poll_cleanup_once(map: &mut VerifRemoteMap) {
    let fut = map.cleanup();
    let mut fut = std::pin::pin!(fut);
    let mut cx = std::task::Context::from_waker(std::task::Waker::noop());
    let _ = fut.as_mut().poll(&mut cx);
}

fn execute(c: &Case) -> Trace {
    install_handlers();
    paused_rt(async {
        let base = Instant::now();
        TLS.with(|t| {
            *t.borrow_mut() = Tls { base: Some(base), ..Tls::default() };
        });
        let services = AddressLookupServices::default();
        for (index, spec) in c.services.iter().enumerate() {
            services.add(Svc { spec: spec.clone(), index });
        }
        let mut map = VerifRemoteMap::new(services);
        let ids = [remote::endpoint_id(10), remote::endpoint_id(11)];
        let id_str: Vec<String> = ids.iter().map(|i| i.to_string()).collect();
        let replies: Arc<Mutex<Vec<(usize, u64, Reply)>>> = Arc::new(Mutex::new(vec![]));
        let mut sent: Vec<Sent> = vec![];
        let mut infos: Vec<InfoSent> = vec![];
        let mut holds_armed = 0usize;
        let mut blocked: Option<(usize, String)> = None;
        // messages queued per remote while one of its actors is held
        let mut queued_while_held = [0usize; 2];
        let settle = || sleep(Duration::from_millis(2));

        for (op_index, op) in c.ops.iter().enumerate() {
            record("harness:op", &format!("{op_index} {op:?}"));
            let is_held = |r: usize| TLS.with(|t| t.borrow().held.iter().any(|(id, _)| *id == id_str[r]));
            match op {
                Op::Resolve { remote, with_addr } => {
                    let r = *remote as usize % 2;
                    if is_held(r) {
                        if queued_while_held[r] >= MAX_QUEUED_WHILE_HELD {
                            // the inbox (capacity 16) would fill up and the send would block
                            // until release: real back-pressure, not a lost request; skipped
                            settle().await;
                            continue;
                        }
                        queued_while_held[r] += 1;
                    }
                    let tag = with_addr.then_some(20_000 + sent.len() as u16);
                    let addr = match tag {
                        Some(port) => EndpointAddr::from_parts(ids[r], [TransportAddr::Ip(SocketAddr::from((Ipv4Addr::new(127, 0, 0, 1), port)))]),
                        None => EndpointAddr::new(ids[r]),
                    };
                    let (tx, rx) = oneshot::channel();
                    let idx = sent.len();
                    sent.push(Sent { remote: r as u8, tag, op_index, t_sent_us: now_us(Some(base)) });
                    let replies = replies.clone();
                    tokio::spawn(async move {
                        let v = rx.await;
                        replies.lock().unwrap().push((idx, now_us(Some(base)), classify(&v)));
                    });
                    // the socket actor awaits this call: it must return (virtual time: an hour
                    // passes only if every task is idle and nothing but this timer can fire)
                    if tokio::time::timeout(Duration::from_secs(3600), map.resolve_remote(addr, tx)).await.is_err() {
                        blocked = Some((op_index, format!("resolve_remote for remote {r}")));
                        break;
                    }
                }
                Op::RemoteInfo { remote } => {
                    let r = *remote as usize % 2;
                    if is_held(r) {
                        if queued_while_held[r] >= MAX_QUEUED_WHILE_HELD {
                            settle().await;
                            continue;
                        }
                        queued_while_held[r] += 1;
                    }
                    if let Some(rx) = map.send_remote_info(ids[r]).await {
                        infos.push(InfoSent { remote: r as u8, rx });
                    }
                }
                Op::Advance { half_ms } => {
                    sleep(Duration::from_millis(2 * *half_ms as u64 - 2)).await;
                }
                Op::Cleanup => poll_cleanup_once(&mut map),
                Op::HoldStop { remote } => {
                    let r = *remote as usize % 2;
                    holds_armed += 1;
                    TLS.with(|t| {
                        let mut t = t.borrow_mut();
                        if !t.armed.contains(&id_str[r]) {
                            t.armed.push(id_str[r].clone());
                        }
                    });
                }
                Op::ReleaseStop => {
                    let held = TLS.with(|t| std::mem::take(&mut t.borrow_mut().held));
                    for (id, tx) in held {
                        let _ = tx.send(());
                        if let Some(r) = id_str.iter().position(|s| *s == id) {
                            queued_while_held[r] = 0;
                        }
                    }
                }
            }
            settle().await;
        }

        // ---- quiesce: release everything, let the socket-actor role run cleanup, let lookups end ----
        record("harness:quiesce", "");
        TLS.with(|t| t.borrow_mut().armed.clear());
        let held = TLS.with(|t| std::mem::take(&mut t.borrow_mut().held));
        for (_, tx) in held {
            let _ = tx.send(());
        }
        let max_delay = c
            .services
            .iter()
            .map(|s| match s {
                SvcSpec::Item { delay_ms, .. } | SvcSpec::Fail { delay_ms } | SvcSpec::Empty { delay_ms } => *delay_ms as u64,
                SvcSpec::Unsupported => 0,
            })
            .max()
            .unwrap_or(0);
        for round in 0..4 {
            settle().await;
            poll_cleanup_once(&mut map);
            settle().await;
            if round == 1 {
                // a restarted actor may have begun a fresh lookup run just now
                sleep(Duration::from_millis(max_delay + 3)).await;
            }
        }
        let mut info_out = vec![];
        for mut i in infos {
            info_out.push((i.remote, i.rx.try_recv().ok().map(|info| info.addrs().count())));
        }
        // snapshot before the map (and with it every actor task) is dropped: a request still
        // unanswered here shows up as missing, not as dropped
        let replies = std::mem::take(&mut *replies.lock().unwrap());
        drop(map);
        settle().await;
        let events = TLS.with(|t| {
            let mut t = t.borrow_mut();
            t.base = None;
            t.held.clear();
            t.armed.clear();
            std::mem::take(&mut t.log)
        });
        Trace { events, sent, replies, infos: info_out, holds_armed, blocked }
    })
}

// ---------------------------------------------------------------------------------------------
// the oracle

/// One lookup event of a run, relative to the run's start.
#[derive(Debug, Clone, Copy)]
enum RunEvent {
    /// a valid item that makes a path known
    Known,
    /// the merged stream finished
    Finished,
}

/// Scripted outcome of one lookup run started at t0: (offset in ms, event), sorted; the
/// `Finished` entry is last.
fn run_script(services: &[SvcSpec]) -> (Vec<(u64, RunEvent)>, Reply) {
    if services.is_empty() {
        return (vec![(0, RunEvent::Finished)], Reply::NoServiceConfigured);
    }
    let mut evs: Vec<(u64, RunEvent)> = vec![];
    let mut end = 0u64;
    for s in services {
        match s {
            SvcSpec::Item { delay_ms, n_addrs, wrong_id } => {
                end = end.max(*delay_ms as u64);
                if *n_addrs > 0 && !*wrong_id {
                    evs.push((*delay_ms as u64, RunEvent::Known));
                }
            }
            SvcSpec::Fail { delay_ms } | SvcSpec::Empty { delay_ms } => end = end.max(*delay_ms as u64),
            SvcSpec::Unsupported => {}
        }
    }
    evs.sort_by_key(|e| e.0);
    evs.push((end, RunEvent::Finished));
    (evs, Reply::NoResults)
}

struct Instance {
    remote_str: String,
    instance: String,
    start_idx: usize,
    stop_idx: Option<usize>,
    /// (event index, time, is_resolve, has_addr_tag)
    handles: Vec<(usize, u64, HandleKind)>,
}

#[derive(Debug, Clone, PartialEq, Eq)]
enum HandleKind {
    Resolve(Option<u16>),
    Info,
    Other,
}

macro_rules! fail {
    ($prop:expr, $sig:expr, $($arg:tt)*) => {
        return Outcome::violation(format!("{}:{}", $prop, $sig), format!($($arg)*))
    };
}

pub fn run_case(ctx: &Ctx, emph: Emphasis, c: &Case) -> Outcome {
    let p = ctx.property;
    let trace = execute(c);
    if let Some((op_index, what)) = &trace.blocked {
        fail!(p, "caller-blocked-forever", "op #{op_index}: {what} did not return within an hour of virtual time (the socket actor would be stuck and the request is never handled)");
    }
    let ids = [remote::endpoint_id(10).to_string(), remote::endpoint_id(11).to_string()];
    let mut classes: Vec<&'static str> = vec![];

    // ---- parse lifecycle events into instances ----
    let mut instances: Vec<Instance> = vec![];
    for (i, e) in trace.events.iter().enumerate() {
        let mut parts = e.detail.split(' ');
        match e.name.as_str() {
            "remote_state:actor_start" => {
                let (Some(id), Some(inst)) = (parts.next(), parts.next()) else { continue };
                instances.push(Instance { remote_str: id.to_string(), instance: inst.to_string(), start_idx: i, stop_idx: None, handles: vec![] });
            }
            "remote_state:handle" | "remote_state:actor_stop" => {
                let (Some(id), Some(inst)) = (parts.next(), parts.next()) else { continue };
                let Some(ins) = instances.iter_mut().find(|x| x.remote_str == id && x.instance == inst) else {
                    fail!(p, "event-without-start", "event {} {} for an instance that never started", e.name, e.detail);
                };
                if e.name == "remote_state:actor_stop" {
                    ins.stop_idx = Some(i);
                } else {
                    if ins.stop_idx.is_some() {
                        fail!(p, "handled-after-stop", "instance {inst} of {id} handled a message after it stopped");
                    }
                    let kind = match parts.next() {
                        Some("resolve") => {
                            let ports = parts.next().unwrap_or("");
                            HandleKind::Resolve(ports.split(',').filter_map(|x| x.parse::<u16>().ok()).next())
                        }
                        Some("remote_info") => HandleKind::Info,
                        _ => HandleKind::Other,
                    };
                    ins.handles.push((i, e.t_us, kind));
                }
            }
            _ => {}
        }
    }

    // ---- at most one live instance per remote ----
    for r in 0..2 {
        let mut live: Option<&Instance> = None;
        let mut evs: Vec<(usize, bool, &Instance)> = vec![];
        for ins in instances.iter().filter(|x| x.remote_str == ids[r]) {
            evs.push((ins.start_idx, true, ins));
            if let Some(s) = ins.stop_idx {
                evs.push((s, false, ins));
            }
        }
        evs.sort_by_key(|e| e.0);
        for (_, is_start, ins) in evs {
            if is_start {
                if let Some(l) = live {
                    fail!(p, "two-live-instances", "remote {r}: instance {} started while instance {} was still running (events: {})", ins.instance, l.instance, render(&trace.events));
                }
                live = Some(ins);
            } else {
                live = None;
            }
        }
    }

    // ---- every request is handled exactly once, in the order made ----
    for r in 0..2 {
        let sent: Vec<(usize, &Sent)> = trace.sent.iter().enumerate().filter(|(_, s)| s.remote as usize == r).collect();
        let handled: Vec<(&Instance, usize, u64, Option<u16>)> = {
            let mut v = vec![];
            for ins in instances.iter().filter(|x| x.remote_str == ids[r]) {
                for (i, t, k) in &ins.handles {
                    if let HandleKind::Resolve(tag) = k {
                        v.push((ins, *i, *t, *tag));
                    }
                }
            }
            v.sort_by_key(|x| x.1);
            v
        };
        if handled.len() < sent.len() {
            let missing = &sent[handled.len()].1;
            fail!(p, "request-not-processed", "remote {r}: {} resolve requests made, only {} processed by the remote's state; first unprocessed: op #{} (tag {:?}); events: {}", sent.len(), handled.len(), missing.op_index, missing.tag, render(&trace.events));
        }
        if handled.len() > sent.len() {
            fail!(p, "request-processed-twice", "remote {r}: {} resolve requests made but {} processed; events: {}", sent.len(), handled.len(), render(&trace.events));
        }
        for ((_, s), (_, _, t, tag)) in sent.iter().zip(&handled) {
            if s.tag != *tag {
                fail!(p, "order", "remote {r}: request of op #{} (tag {:?}) made at this position, but the state processed a request with tag {:?} here; events: {}", s.op_index, s.tag, tag, render(&trace.events));
            }
            if *t < s.t_sent_us {
                fail!(p, "harness", "handled before sent?");
            }
        }
    }

    // ---- every request answered exactly once ----
    let mut reply_of: BTreeMap<usize, (u64, Reply)> = BTreeMap::new();
    for (idx, t, v) in &trace.replies {
        if reply_of.insert(*idx, (*t, *v)).is_some() {
            fail!(p, "answered-twice", "request #{idx} got two replies");
        }
    }
    for (idx, s) in trace.sent.iter().enumerate() {
        match reply_of.get(&idx) {
            None => fail!(p, "request-unanswered", "resolve request of op #{} (remote {}, tag {:?}) never answered although all lookups finished and cleanup ran; events: {}", s.op_index, s.remote, s.tag, render(&trace.events)),
            Some((_, Reply::Dropped)) => fail!(p, "request-dropped", "resolve request of op #{} (remote {}, tag {:?}) was dropped without a reply; events: {}", s.op_index, s.remote, s.tag, render(&trace.events)),
            Some(_) => {}
        }
    }

    // ---- replies are the correct ones, at the correct instant (trace model per instance) ----
    let (script, fail_reply) = run_script(&c.services);
    let mut waited = false;
    for r in 0..2 {
        let sent_idx: Vec<usize> = trace.sent.iter().enumerate().filter(|(_, s)| s.remote as usize == r).map(|(i, _)| i).collect();
        let mut next_req = 0usize;
        let mut next_info = trace.infos.iter().filter(|(ir, _)| *ir as usize == r);
        let mut insts: Vec<&Instance> = instances.iter().filter(|x| x.remote_str == ids[r]).collect();
        insts.sort_by_key(|x| x.start_idx);
        for ins in insts {
            // model state of this instance
            let mut known = false;
            let mut pending: Vec<usize> = vec![];
            // absolute (time_us, event) of the active run
            let mut run: Vec<(u64, RunEvent)> = vec![];
            let mut predicted: Vec<(usize, u64, Reply)> = vec![];
            let stop_t = ins.stop_idx.map(|i| trace.events[i].t_us).unwrap_or(u64::MAX);
            let mut handles = ins.handles.iter().peekable();
            loop {
                let next_handle_t = handles.peek().map(|h| h.1);
                let next_run_t = run.first().map(|e| e.0);
                // messages first at equal instants (biased select, inbox first)
                let take_handle = match (next_handle_t, next_run_t) {
                    (None, None) => break,
                    (Some(_), None) => true,
                    (None, Some(_)) => false,
                    (Some(h), Some(l)) => h <= l,
                };
                if take_handle {
                    let (_, t, kind) = handles.next().expect("peeked");
                    match kind {
                        HandleKind::Resolve(tag) => {
                            let req = sent_idx[next_req];
                            next_req += 1;
                            if tag.is_some() {
                                known = true;
                                for q in pending.drain(..) {
                                    predicted.push((q, *t, Reply::Ok));
                                }
                            }
                            if known {
                                predicted.push((req, *t, Reply::Ok));
                            } else {
                                pending.push(req);
                            }
                            if run.is_empty() {
                                run = script.iter().map(|(off, ev)| (*t + off * 1000, *ev)).collect();
                            }
                        }
                        HandleKind::Info => {
                            if let Some((_, Some(n))) = next_info.next() {
                                if known != (*n > 0) {
                                    fail!(p, "known-paths-mismatch", "remote {r}: RemoteInfo lists {n} addresses but the model says some path known = {known}; events: {}", render(&trace.events));
                                }
                            }
                        }
                        HandleKind::Other => {}
                    }
                } else {
                    let (t, ev) = run.remove(0);
                    if t > stop_t {
                        // the instance stopped before this lookup event; the run died with it
                        run.clear();
                        continue;
                    }
                    match ev {
                        RunEvent::Known => {
                            known = true;
                            for q in pending.drain(..) {
                                predicted.push((q, t, Reply::Ok));
                                waited = true;
                            }
                        }
                        RunEvent::Finished => {
                            for q in pending.drain(..) {
                                predicted.push((q, t, if known { Reply::Ok } else { fail_reply }));
                                waited = true;
                            }
                            run.clear();
                        }
                    }
                }
            }
            if !pending.is_empty() {
                fail!(p, "harness", "model left requests pending for instance {} (stop at {stop_t})", ins.instance);
            }
            for (req, t, want) in predicted {
                let (got_t, got) = reply_of[&req];
                let s = &trace.sent[req];
                if got != want {
                    fail!(p, "wrong-reply", "resolve request of op #{} (remote {r}, tag {:?}) answered {got:?} at {}ms, expected {want:?} at {}ms; services {:?}; events: {}", s.op_index, s.tag, got_t / 1000, t / 1000, c.services, render(&trace.events));
                }
                if got_t.abs_diff(t) > 1000 {
                    fail!(p, "reply-at-wrong-time", "resolve request of op #{} (remote {r}, tag {:?}) answered {got:?} at {}us, expected at {}us; services {:?}; events: {}", s.op_index, s.tag, got_t, t, c.services, render(&trace.events));
                }
                classes.push(match (got, got_t > s.t_sent_us + 1000) {
                    (Reply::Ok, false) => "reply:ok-immediately",
                    (Reply::Ok, true) => "reply:ok-later",
                    (Reply::NoResults, _) => "reply:no-results",
                    (Reply::NoServiceConfigured, _) => "reply:no-service-configured",
                    (Reply::Dropped, _) => "reply:dropped",
                });
            }
        }
    }
    classes.sort();
    classes.dedup();

    // ---- coverage classes ----
    let mut leftover_restart = false;
    let mut send_error_restart = false;
    let mut idle_stops = 0;
    let mut cur_op = String::new();
    for e in &trace.events {
        match e.name.as_str() {
            "harness:op" => cur_op = e.detail.clone(),
            "remote_state:actor_start" => {
                let initial: usize = e.detail.split(' ').nth(2).and_then(|x| x.parse().ok()).unwrap_or(0);
                if initial > 0 {
                    leftover_restart = true;
                    if cur_op.contains("Resolve") {
                        send_error_restart = true;
                    }
                }
            }
            "remote_state:actor_stop" => idle_stops += 1,
            _ => {}
        }
    }
    let held = trace.events.iter().any(|e| e.name == "harness:held");
    let queued_in_closing_inbox = trace.events.iter().any(|e| e.name == "remote_state:actor_stop" && e.detail.split(' ').nth(2).is_some_and(|n| n != "0"));
    if held {
        classes.push("actor-held-before-close");
    }
    if queued_in_closing_inbox {
        classes.push("leftover-messages");
    }
    if leftover_restart {
        classes.push("restart-with-initial-msgs");
    }
    if send_error_restart {
        classes.push("restart-from-send-error");
    }
    if idle_stops > 0 {
        classes.push("idle-stop");
    }
    if instances.iter().filter(|x| x.remote_str == ids[0]).count() > 1 {
        classes.push("remote0-restarted");
    }
    if trace.sent.iter().any(|s| s.remote == 1) && trace.sent.iter().any(|s| s.remote == 0) {
        classes.push("two-remotes");
    }
    if trace.holds_armed > 0 && !held {
        classes.push("hold-armed-not-hit");
    }
    let nontrivial = match emph {
        Emphasis::Lifecycle => queued_in_closing_inbox || send_error_restart,
        Emphasis::Lookup => waited,
    };
    Outcome::pass_with(nontrivial, classes)
}

fn render(events: &[Event]) -> String {
    let mut s = String::new();
    for e in events {
        let name = e.name.strip_prefix("remote_state:").unwrap_or(&e.name);
        // shorten the 64-hex endpoint ids
        let detail: Vec<String> = e.detail.split(' ').map(|w| if w.len() == 64 { w[..6].to_string() } else { w.to_string() }).collect();
        s.push_str(&format!("[{}ms {} {}] ", e.t_us / 1000, name, detail.join(" ")));
        if s.len() > 6000 {
            s.push('…');
            break;
        }
    }
    s
}

pub fn explore(ctx: &Ctx, part: &str, emph: Emphasis, cases: u32) {
    ctx.explore(part, ExploreOpts::new(cases).shrink(4000), move || strategy(emph), move |c| run_case(ctx, emph, c));
}
