//! Schedule control over the cfg-guarded pause points of `iroh_base::verif_hooks`.

use std::sync::{Arc, Mutex};

use iroh_base::verif_hooks;
use tokio::sync::oneshot;

struct Hold {
    name: String,
    reached: Option<oneshot::Sender<String>>,
    release: Option<oneshot::Receiver<()>>,
}

static HOLDS: Mutex<Vec<Hold>> = Mutex::new(Vec::new());

/// Handle for one armed async pause point.
pub struct Armed {
    pub reached: oneshot::Receiver<String>,
    pub release: oneshot::Sender<()>,
}

/// Installs the async handler (idempotent).
pub fn install_async() {
    verif_hooks::set_async_handler(Some(Arc::new(|name: &str, detail: &str| {
        let mut holds = HOLDS.lock().unwrap();
        let pos = holds.iter().position(|h| h.name == name)?;
        let mut h = holds.remove(pos);
        let reached = h.reached.take()?;
        let release = h.release.take()?;
        let detail = detail.to_string();
        Some(Box::pin(async move {
            let _ = reached.send(detail);
            let _ = release.await;
        }) as verif_hooks::PointFuture)
    })));
}

/// Arms the next hit of async point `name`: the task reaching it reports its detail string and
/// waits until released (or until the `Armed` handle is dropped).
pub fn arm_async(name: &str) -> Armed {
    let (rtx, rrx) = oneshot::channel();
    let (ltx, lrx) = oneshot::channel();
    HOLDS.lock().unwrap().push(Hold { name: name.to_string(), reached: Some(rtx), release: Some(lrx) });
    Armed { reached: rrx, release: ltx }
}

pub fn clear() {
    HOLDS.lock().unwrap().clear();
}

// ---------------- sync event log ----------------

#[derive(Debug, Clone)]
pub struct Event {
    pub name: String,
    pub detail: String,
    pub at: std::time::Instant,
    pub seq: u64,
}

static LOG: Mutex<Vec<Event>> = Mutex::new(Vec::new());

/// Installs a sync handler that appends every `event`/`point` to a process-wide log.
pub fn install_sync_log() {
    LOG.lock().unwrap().clear();
    verif_hooks::set_sync_handler(Some(Arc::new(|name: &str, detail: &str| {
        let mut log = LOG.lock().unwrap();
        let seq = log.len() as u64;
        log.push(Event { name: name.to_string(), detail: detail.to_string(), at: std::time::Instant::now(), seq });
    })));
}

pub fn uninstall_sync() {
    verif_hooks::set_sync_handler(None);
}

pub fn events() -> Vec<Event> {
    LOG.lock().unwrap().clone()
}

/// Waits (polling, real time) until `count` events matching `pred` exist; returns them.
pub async fn wait_events(pred: impl Fn(&Event) -> bool, count: usize, timeout: std::time::Duration) -> Option<Vec<Event>> {
    let deadline = std::time::Instant::now() + timeout;
    loop {
        let v: Vec<Event> = LOG.lock().unwrap().iter().filter(|e| pred(e)).cloned().collect();
        if v.len() >= count {
            return Some(v);
        }
        if std::time::Instant::now() >= deadline {
            return None;
        }
        tokio::time::sleep(std::time::Duration::from_millis(5)).await;
    }
}
