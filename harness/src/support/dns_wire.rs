//! A small DNS message writer, independent of `simple-dns`, that can produce well-formed
//! replies as well as hostile ones (compression pointers anywhere, wrong lengths, oversize labels).
//! Used by C32 (signed packet payloads).

use proptest::prelude::*;
use serde::{Deserialize, Serialize};

use super::gens::{self, Payload};

#[derive(Debug, Clone, Serialize, Deserialize)]
pub enum LabelSpec {
    Iroh,
    /// z-base-32 of the signing key
    ZoneOwn,
    /// z-base-32 of another key
    ZoneOther,
    Text(String),
    /// `n` times the letter a (n up to 70: over the 63 byte limit)
    Long(u8),
    /// arbitrary length byte and content
    Raw { len_byte: u8, bytes: Payload },
}

#[derive(Debug, Clone, Serialize, Deserialize)]
pub enum NameEnd {
    Root,
    /// compression pointer to the first name of the message (offset 12); backward, hence valid, everywhere but in that name itself
    PtrFirstName,
    Ptr(u16),
    /// pointer to its own position
    PtrSelf,
    /// no terminator at all
    Missing,
}

#[derive(Debug, Clone, Serialize, Deserialize)]
pub struct NameSpec {
    pub labels: Vec<LabelSpec>,
    pub end: NameEnd,
}

#[derive(Debug, Clone, Serialize, Deserialize)]
pub enum TxtContent {
    Str(String),
    Bytes(Payload),
}

#[derive(Debug, Clone, Serialize, Deserialize)]
pub struct TxtStr {
    pub content: TxtContent,
    /// declared length = actual length + delta
    pub len_delta: i8,
}

#[derive(Debug, Clone, Serialize, Deserialize)]
pub enum RdataSpec {
    Txt(Vec<TxtStr>),
    A([u8; 4]),
    Aaaa([u8; 16]),
    /// CNAME / NS style rdata
    Name(NameSpec),
    Raw(Payload),
}

#[derive(Debug, Clone, Serialize, Deserialize)]
pub struct RecSpec {
    pub name: NameSpec,
    /// `None`: the natural type of the rdata
    pub rtype: Option<u16>,
    pub class: u16,
    pub ttl: u32,
    pub rdata: RdataSpec,
    pub rdlen_delta: i8,
}

#[derive(Debug, Clone, Serialize, Deserialize)]
pub struct DnsSpec {
    pub id: u16,
    pub flags: u16,
    pub questions: Vec<(NameSpec, u16, u16)>,
    pub answers: Vec<RecSpec>,
    /// deltas applied to the four section counts in the header
    pub count_deltas: [i8; 4],
    pub trailing: Vec<u8>,
}

impl DnsSpec {
    pub fn is_well_formed_by_construction(&self) -> bool {
        fn name_ok(n: &NameSpec) -> bool {
            matches!(n.end, NameEnd::Root)
                && n.labels.iter().all(|l| match l {
                    LabelSpec::Text(t) => !t.is_empty() && t.len() <= 63,
                    LabelSpec::Long(n) => (1..=63).contains(n),
                    LabelSpec::Raw { .. } => false,
                    _ => true,
                })
        }
        self.count_deltas == [0; 4]
            && self.trailing.is_empty()
            && matches!(self.flags, 0x8400 | 0)
            && self.questions.iter().all(|q| name_ok(&q.0) && q.1 == 16 && q.2 == 1)
            && self.answers.iter().all(|r| {
                name_ok(&r.name)
                    && matches!(r.class, 1 | 0x8001)
                    && r.rdlen_delta == 0
                    && r.rtype.is_none()
                    && match &r.rdata {
                        RdataSpec::Txt(v) => !v.is_empty() && v.iter().all(|s| s.len_delta == 0),
                        RdataSpec::Name(n) => name_ok(n),
                        RdataSpec::Raw(_) => false,
                        _ => true,
                    }
            })
    }
}

fn write_name(out: &mut Vec<u8>, n: &NameSpec, zone_own: &str, zone_other: &str, first_answer_at: usize) {
    let start = out.len();
    for l in &n.labels {
        let bytes: Vec<u8> = match l {
            LabelSpec::Iroh => b"_iroh".to_vec(),
            LabelSpec::ZoneOwn => zone_own.as_bytes().to_vec(),
            LabelSpec::ZoneOther => zone_other.as_bytes().to_vec(),
            LabelSpec::Text(t) => t.as_bytes().to_vec(),
            LabelSpec::Long(n) => vec![b'a'; *n as usize],
            LabelSpec::Raw { len_byte, bytes } => {
                out.push(*len_byte);
                out.extend(bytes.bytes());
                continue;
            }
        };
        out.push(bytes.len().min(255) as u8);
        out.extend(bytes);
    }
    match n.end {
        NameEnd::Root => out.push(0),
        NameEnd::PtrFirstName => {
            let _ = first_answer_at;
            out.extend(0xC00Cu16.to_be_bytes())
        }
        NameEnd::Ptr(p) => out.extend((0xC000u16 | (p & 0x3fff)).to_be_bytes()),
        NameEnd::PtrSelf => out.extend((0xC000u16 | (start as u16 & 0x3fff)).to_be_bytes()),
        NameEnd::Missing => {}
    }
}

pub fn encode(spec: &DnsSpec, zone_own: &str, zone_other: &str) -> Vec<u8> {
    let mut out = Vec::new();
    out.extend(spec.id.to_be_bytes());
    out.extend(spec.flags.to_be_bytes());
    let counts = [spec.questions.len() as i32, spec.answers.len() as i32, 0, 0];
    for (c, d) in counts.iter().zip(spec.count_deltas) {
        out.extend(((c + d as i32).clamp(0, 65535) as u16).to_be_bytes());
    }
    // offset of the first answer's owner name, for the well-formed compression pointer
    let mut probe = out.clone();
    for (n, _, _) in &spec.questions {
        write_name(&mut probe, n, zone_own, zone_other, 12);
        probe.extend([0u8; 4]);
    }
    let first_answer_at = probe.len();
    for (n, t, c) in &spec.questions {
        write_name(&mut out, n, zone_own, zone_other, first_answer_at);
        out.extend(t.to_be_bytes());
        out.extend(c.to_be_bytes());
    }
    for r in &spec.answers {
        write_name(&mut out, &r.name, zone_own, zone_other, first_answer_at);
        let natural = match &r.rdata {
            RdataSpec::Txt(_) => 16u16,
            RdataSpec::A(_) => 1,
            RdataSpec::Aaaa(_) => 28,
            RdataSpec::Name(_) => 5,
            RdataSpec::Raw(_) => 16,
        };
        out.extend(r.rtype.unwrap_or(natural).to_be_bytes());
        out.extend(r.class.to_be_bytes());
        out.extend(r.ttl.to_be_bytes());
        let mut rd = Vec::new();
        match &r.rdata {
            RdataSpec::Txt(strs) => {
                for s in strs {
                    let mut b = match &s.content {
                        TxtContent::Str(t) => t.as_bytes().to_vec(),
                        TxtContent::Bytes(p) => p.bytes(),
                    };
                    b.truncate(255);
                    rd.push((b.len() as i32 + s.len_delta as i32).clamp(0, 255) as u8);
                    rd.extend(b);
                }
            }
            RdataSpec::A(a) => rd.extend(a),
            RdataSpec::Aaaa(a) => rd.extend(a),
            RdataSpec::Name(n) => {
                // pointers inside rdata are relative to the message, so write in place
                let mut tmp = out.clone();
                tmp.extend([0u8; 2]);
                let at = tmp.len();
                write_name(&mut tmp, n, zone_own, zone_other, first_answer_at);
                rd.extend(&tmp[at..]);
            }
            RdataSpec::Raw(p) => rd.extend(p.bytes()),
        }
        out.extend(((rd.len() as i32 + r.rdlen_delta as i32).clamp(0, 65535) as u16).to_be_bytes());
        out.extend(rd);
    }
    out.extend(&spec.trailing);
    out
}

// ---------------- strategies ----------------

fn label_spec(hostile: bool) -> BoxedStrategy<LabelSpec> {
    if hostile {
        prop_oneof![
            3 => Just(LabelSpec::Iroh),
            3 => Just(LabelSpec::ZoneOwn),
            1 => Just(LabelSpec::ZoneOther),
            3 => "[a-z0-9_@*-]{1,8}".prop_map(LabelSpec::Text),
            2 => "[ -~]{1,12}".prop_map(LabelSpec::Text),
            1 => prop_oneof![4 => 1u8..=63, 1 => 0u8..=70].prop_map(LabelSpec::Long),
            1 => (any::<u8>(), gens::payload(&[63, 64], 80)).prop_map(|(len_byte, bytes)| LabelSpec::Raw { len_byte, bytes }),
        ]
        .boxed()
    } else {
        prop_oneof![
            3 => Just(LabelSpec::Iroh),
            3 => Just(LabelSpec::ZoneOwn),
            1 => Just(LabelSpec::ZoneOther),
            3 => "[a-z0-9_@*-]{1,8}".prop_map(LabelSpec::Text),
            1 => "[!-~]{1,12}".prop_map(LabelSpec::Text),
            1 => (1u8..=63).prop_map(LabelSpec::Long),
        ]
        .boxed()
    }
}

pub fn name_spec(hostile: bool) -> BoxedStrategy<NameSpec> {
    let canned = prop_oneof![
        Just(vec![LabelSpec::Iroh, LabelSpec::ZoneOwn]),
        Just(vec![LabelSpec::ZoneOwn]),
        Just(vec![LabelSpec::Iroh]),
        Just(vec![LabelSpec::Text("foo".into()), LabelSpec::Iroh, LabelSpec::ZoneOwn]),
        Just(vec![LabelSpec::Iroh, LabelSpec::ZoneOther]),
        Just(Vec::<LabelSpec>::new()),
    ];
    let labels = prop_oneof![4 => canned, 3 => proptest::collection::vec(label_spec(hostile), 0..5)];
    let end = if hostile {
        prop_oneof![
            40 => Just(NameEnd::Root),
            8 => Just(NameEnd::PtrFirstName),
            2 => (0u16..200).prop_map(NameEnd::Ptr),
            1 => any::<u16>().prop_map(NameEnd::Ptr),
            1 => Just(NameEnd::PtrSelf),
            1 => Just(NameEnd::Missing),
        ]
        .boxed()
    } else {
        Just(NameEnd::Root).boxed()
    };
    (labels, end).prop_map(|(labels, end)| NameSpec { labels, end }).boxed()
}

fn txt_str(hostile: bool) -> BoxedStrategy<TxtStr> {
    let content = prop_oneof![
        4 => "(relay|addr|user-data|[a-z]{1,5})=[ -~]{0,30}".prop_map(TxtContent::Str),
        2 => "[ -~]{0,40}".prop_map(TxtContent::Str),
        1 => any::<String>().prop_map(|s| TxtContent::Str(s.chars().take(40).collect())),
        2 => gens::payload(&[255], 255).prop_map(TxtContent::Bytes),
    ];
    let delta = if hostile { prop_oneof![16 => Just(0i8), 1 => -3i8..=3, 1 => any::<i8>()].boxed() } else { Just(0i8).boxed() };
    (content, delta).prop_map(|(content, len_delta)| TxtStr { content, len_delta }).boxed()
}

fn rec_spec(hostile: bool) -> BoxedStrategy<RecSpec> {
    let txt = proptest::collection::vec(txt_str(hostile), if hostile { 0..4usize } else { 1..4usize }).prop_map(RdataSpec::Txt);
    let rdata = if hostile {
        prop_oneof![
            6 => txt,
            1 => any::<[u8; 4]>().prop_map(RdataSpec::A),
            1 => any::<[u8; 16]>().prop_map(RdataSpec::Aaaa),
            1 => name_spec(true).prop_map(RdataSpec::Name),
            1 => gens::payload(&[4, 16], 64).prop_map(RdataSpec::Raw),
        ]
        .boxed()
    } else {
        prop_oneof![
            6 => txt,
            1 => any::<[u8; 4]>().prop_map(RdataSpec::A),
            1 => any::<[u8; 16]>().prop_map(RdataSpec::Aaaa),
            1 => name_spec(false).prop_map(RdataSpec::Name),
        ]
        .boxed()
    };
    let rtype = if hostile { prop_oneof![12 => Just(None::<u16>), 1 => prop::sample::select(vec![1u16, 2, 5, 6, 12, 15, 16, 28, 33, 41, 255, 65]).prop_map(Some), 1 => any::<u16>().prop_map(Some)].boxed() } else { Just(None::<u16>).boxed() };
    let class = if hostile { prop_oneof![12 => Just(1u16), 2 => Just(0x8001u16), 1 => any::<u16>()].boxed() } else { prop_oneof![5 => Just(1u16), 1 => Just(0x8001u16)].boxed() };
    let rdlen_delta = if hostile { prop_oneof![16 => Just(0i8), 1 => -3i8..=3, 1 => any::<i8>()].boxed() } else { Just(0i8).boxed() };
    (name_spec(hostile), rtype, class, prop_oneof![Just(0u32), Just(30), Just(u32::MAX), any::<u32>()], rdata, rdlen_delta)
        .prop_map(|(name, rtype, class, ttl, rdata, rdlen_delta)| RecSpec { name, rtype, class, ttl, rdata, rdlen_delta })
        .boxed()
}

/// `hostile = false`: replies that are well formed by construction; `true`: anything the
/// writer can express.
pub fn dns_spec(hostile: bool) -> BoxedStrategy<DnsSpec> {
    let questions = if hostile {
        proptest::collection::vec((name_spec(true), prop_oneof![8 => Just(16u16), 1 => any::<u16>()], prop_oneof![8 => Just(1u16), 1 => any::<u16>()]), 0..2).boxed()
    } else {
        proptest::collection::vec((name_spec(false), Just(16u16), Just(1u16)), 0..2).boxed()
    };
    let deltas = if hostile { prop_oneof![8 => Just([0i8; 4]), 1 => proptest::array::uniform4(-1i8..=2)].boxed() } else { Just([0i8; 4]).boxed() };
    let trailing = if hostile { prop_oneof![8 => Just(vec![]), 1 => proptest::collection::vec(any::<u8>(), 1..8)].boxed() } else { Just(vec![]).boxed() };
    let flags = if hostile { prop_oneof![10 => Just(0x8400u16), 2 => Just(0u16), 1 => any::<u16>()].boxed() } else { prop_oneof![5 => Just(0x8400u16), 1 => Just(0u16)].boxed() };
    (any::<u16>(), flags, questions, proptest::collection::vec(rec_spec(hostile), 0..6), deltas, trailing)
        .prop_map(|(id, flags, questions, answers, count_deltas, trailing)| DnsSpec { id, flags, questions, answers, count_deltas, trailing })
        .boxed()
}
