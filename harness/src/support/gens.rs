//! Shared generators and small independent reference codecs.

use proptest::prelude::*;
use serde::{Deserialize, Serialize};

/// Monotone index mapping (shrinks towards 0 without stalling).
pub fn pick(i: u16, len: usize) -> usize {
    if len == 0 {
        return 0;
    }
    ((i as usize) * len) >> 16
}

/// A compact byte payload: `len` bytes produced from `fill` by a fixed pattern.
#[derive(Debug, Clone, PartialEq, Eq, Hash, Serialize, Deserialize)]
pub struct Payload {
    pub len: usize,
    pub fill: u8,
}

impl Payload {
    pub fn bytes(&self) -> Vec<u8> {
        let mut v = Vec::with_capacity(self.len);
        let mut x = self.fill as u32 | 0x100;
        for i in 0..self.len {
            x = x.wrapping_mul(1664525).wrapping_add(1013904223);
            v.push(((x >> 16) as u8) ^ (i as u8));
        }
        v
    }
}

/// Lengths: dense near each boundary (±4), dense small, sparse log-uniform up to max.
pub fn len_near(boundaries: &'static [usize], max: usize) -> BoxedStrategy<usize> {
    let b = boundaries.to_vec();
    prop_oneof![
        3 => 0usize..8,
        3 => (any::<u16>(), 0usize..9).prop_map(move |(i, d)| {
            let base = b[pick(i, b.len())];
            (base + d).saturating_sub(4)
        }),
        2 => (0u32..=(usize::BITS - max.leading_zeros())).prop_flat_map(move |bits| {
            let hi = (1usize << bits.min(usize::BITS - 1)).min(max).max(1);
            0..=hi
        }),
    ]
    .prop_map(move |l| l.min(max))
    .boxed()
}

pub fn payload(boundaries: &'static [usize], max: usize) -> BoxedStrategy<Payload> {
    (len_near(boundaries, max), any::<u8>())
        .prop_map(|(len, fill)| Payload { len, fill })
        .boxed()
}

pub fn secret_bytes() -> BoxedStrategy<[u8; 32]> {
    prop_oneof![
        8 => any::<[u8; 32]>(),
        1 => (0u8..8).prop_map(|i| { let mut b = [0u8; 32]; b[0] = i; b }),
    ]
    .boxed()
}

// ---------- independent reference codecs ----------

pub fn hex_lower(b: &[u8]) -> String {
    const T: &[u8; 16] = b"0123456789abcdef";
    let mut s = String::with_capacity(b.len() * 2);
    for x in b {
        s.push(T[(x >> 4) as usize] as char);
        s.push(T[(x & 15) as usize] as char);
    }
    s
}

/// Strict lowercase hex decoder.
pub fn hex_lower_decode(s: &str) -> Option<Vec<u8>> {
    let b = s.as_bytes();
    if b.len() % 2 != 0 {
        return None;
    }
    let v = |c: u8| match c {
        b'0'..=b'9' => Some(c - b'0'),
        b'a'..=b'f' => Some(c - b'a' + 10),
        _ => None,
    };
    b.chunks(2)
        .map(|p| Some(v(p[0])? << 4 | v(p[1])?))
        .collect()
}

/// Generic base32 (5 bits per symbol, MSB first, no padding) encoder over `alphabet`.
pub fn b32_encode(alphabet: &[u8; 32], data: &[u8]) -> String {
    let mut out = String::new();
    let mut acc: u32 = 0;
    let mut bits = 0;
    for &b in data {
        acc = (acc << 8) | b as u32;
        bits += 8;
        while bits >= 5 {
            out.push(alphabet[((acc >> (bits - 5)) & 31) as usize] as char);
            bits -= 5;
        }
    }
    if bits > 0 {
        out.push(alphabet[((acc << (5 - bits)) & 31) as usize] as char);
    }
    out
}

/// Strict no-padding base32 decoder: every symbol in `alphabet`, length canonical,
/// trailing bits zero.
pub fn b32_decode(alphabet: &[u8; 32], s: &[u8]) -> Option<Vec<u8>> {
    let mut out = Vec::new();
    let mut acc: u32 = 0;
    let mut bits = 0;
    for &c in s {
        let v = alphabet.iter().position(|&a| a == c)? as u32;
        acc = (acc << 5) | v;
        bits += 5;
        if bits >= 8 {
            out.push((acc >> (bits - 8)) as u8);
            bits -= 8;
            acc &= (1 << bits) - 1;
        }
    }
    // canonical length: number of symbols must be ceil(8n/5)
    if s.len() != (out.len() * 8).div_ceil(5) {
        return None;
    }
    if acc != 0 {
        return None;
    }
    Some(out)
}

pub const RFC4648_UPPER: &[u8; 32] = b"ABCDEFGHIJKLMNOPQRSTUVWXYZ234567";
pub const BASE32HEX_LOWER: &[u8; 32] = b"0123456789abcdefghijklmnopqrstuv";
pub const ZBASE32: &[u8; 32] = b"ybndrfg8ejkmcpqxot1uwisza345h769";

/// Is `bytes` the compressed encoding of an Edwards point?  Independent big-integer
/// implementation: x^2 = (y^2-1)/(d*y^2+1) must be a square mod p = 2^255-19.
pub fn is_curve_point_bigint(bytes: &[u8; 32]) -> bool {
    use num_bigint::BigUint;
    let one = BigUint::from(1u32);
    let p = (BigUint::from(1u32) << 255) - BigUint::from(19u32);
    let mut yb = *bytes;
    yb[31] &= 0x7f;
    let y = BigUint::from_bytes_le(&yb) % &p;
    // d = -121665/121666 mod p
    let inv = |a: &BigUint| a.modpow(&(&p - BigUint::from(2u32)), &p);
    let d = (&p - BigUint::from(121665u32)) * inv(&BigUint::from(121666u32)) % &p;
    let y2 = &y * &y % &p;
    let u = (&y2 + &p - &one) % &p;
    let v = (&d * &y2 + &one) % &p;
    if v == BigUint::from(0u32) {
        return false;
    }
    let w = u * inv(&v) % &p;
    if w == BigUint::from(0u32) {
        return true;
    }
    let e = (&p - &one) >> 1;
    w.modpow(&e, &p) == one
}

/// 32-byte strings biased to interesting key encodings.
pub fn key_candidate() -> BoxedStrategy<[u8; 32]> {
    fn le(v: num_bigint::BigUint) -> [u8; 32] {
        let mut b = v.to_bytes_le();
        b.resize(32, 0);
        b.try_into().unwrap()
    }
    let p = || (num_bigint::BigUint::from(1u32) << 255) - num_bigint::BigUint::from(19u32);
    prop_oneof![
        6 => any::<[u8; 32]>(),
        4 => secret_bytes().prop_map(|s| *iroh_base::SecretKey::from_bytes(&s).public().as_bytes()),
        // small y, y near p, y >= p (non-canonical), with and without sign bit
        2 => (0u32..40, any::<bool>()).prop_map(|(k, sign)| { let mut b = le(num_bigint::BigUint::from(k)); if sign { b[31] |= 0x80; } b }),
        2 => (0u32..40, any::<bool>(), any::<bool>()).prop_map(move |(k, up, sign)| {
            let v = if up { p() + num_bigint::BigUint::from(k) } else { p() - num_bigint::BigUint::from(k) };
            let v = v % (num_bigint::BigUint::from(1u32) << 255);
            let mut b = le(v); if sign { b[31] |= 0x80; } b }),
        // valid key with a small edit
        3 => (secret_bytes(), 0usize..32, 0u8..8).prop_map(|(s, i, bit)| {
            let mut b = *iroh_base::SecretKey::from_bytes(&s).public().as_bytes(); b[i] ^= 1 << bit; b }),
        1 => any::<u8>().prop_map(|x| [x; 32]),
    ]
    .boxed()
}
