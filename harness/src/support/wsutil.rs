//! Hand-written pieces of the WebSocket opening handshake (RFC 6455) for fake relays and
//! raw clients in the harness: SHA-1, the `Sec-WebSocket-Accept` value.

use base64::Engine;

/// SHA-1 (FIPS 180-1), straightforward implementation for short inputs.
pub fn sha1(data: &[u8]) -> [u8; 20] {
    let mut h: [u32; 5] = [0x67452301, 0xEFCDAB89, 0x98BADCFE, 0x10325476, 0xC3D2E1F0];
    let mut msg = data.to_vec();
    let bit_len = (data.len() as u64) * 8;
    msg.push(0x80);
    while msg.len() % 64 != 56 {
        msg.push(0);
    }
    msg.extend_from_slice(&bit_len.to_be_bytes());
    for chunk in msg.chunks(64) {
        let mut w = [0u32; 80];
        for i in 0..16 {
            w[i] = u32::from_be_bytes([chunk[4 * i], chunk[4 * i + 1], chunk[4 * i + 2], chunk[4 * i + 3]]);
        }
        for i in 16..80 {
            w[i] = (w[i - 3] ^ w[i - 8] ^ w[i - 14] ^ w[i - 16]).rotate_left(1);
        }
        let [mut a, mut b, mut c, mut d, mut e] = h;
        for (i, wi) in w.iter().enumerate() {
            let (f, k) = match i {
                0..=19 => ((b & c) | (!b & d), 0x5A827999u32),
                20..=39 => (b ^ c ^ d, 0x6ED9EBA1),
                40..=59 => ((b & c) | (b & d) | (c & d), 0x8F1BBCDC),
                _ => (b ^ c ^ d, 0xCA62C1D6),
            };
            let t = a
                .rotate_left(5)
                .wrapping_add(f)
                .wrapping_add(e)
                .wrapping_add(k)
                .wrapping_add(*wi);
            e = d;
            d = c;
            c = b.rotate_left(30);
            b = a;
            a = t;
        }
        h[0] = h[0].wrapping_add(a);
        h[1] = h[1].wrapping_add(b);
        h[2] = h[2].wrapping_add(c);
        h[3] = h[3].wrapping_add(d);
        h[4] = h[4].wrapping_add(e);
    }
    let mut out = [0u8; 20];
    for (i, v) in h.iter().enumerate() {
        out[4 * i..4 * i + 4].copy_from_slice(&v.to_be_bytes());
    }
    out
}

/// The `Sec-WebSocket-Accept` value for a `Sec-WebSocket-Key` (RFC 6455 section 4.2.2).
pub fn accept_key(key: &[u8]) -> String {
    let mut v = key.to_vec();
    v.extend_from_slice(b"258EAFA5-E914-47DA-95CA-C5AB0DC85B11");
    base64::engine::general_purpose::STANDARD.encode(sha1(&v))
}

#[cfg(test)]
mod tests {
    #[test]
    fn rfc6455_example() {
        assert_eq!(super::accept_key(b"dGhlIHNhbXBsZSBub25jZQ=="), "s3pPLMBiTxaQ9kYGzzhZRbK+xOo=");
    }
}
