//! Shared helpers for property modules.
pub mod gens;
pub mod memrelay;
pub mod tcprelay;
pub mod hooks;
