//! Shared helpers for property modules.
pub mod gens;
