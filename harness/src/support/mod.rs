//! Shared helpers for property modules.
pub mod gens;
pub mod memrelay;
pub mod tcprelay;
pub mod hooks;
pub mod http1;
pub mod relay_srv;
pub mod dns_script;
pub mod wsutil;
pub mod remote;
pub mod remote_actor;
pub mod dns_stagger;
pub mod dns_wire;
pub mod dnssrv;
pub mod sched;
pub mod e2e;
