//! A real `iroh_relay::server::Server` on loopback TCP, with real and raw clients.

use std::{net::Ipv4Addr, sync::Arc, time::Duration};

use bytes::Bytes;
use ed25519_dalek::Signer;
use futures_util::{SinkExt, StreamExt};
use iroh_base::{RelayUrl, SecretKey};
use iroh_dns::dns::DnsResolver;
use iroh_relay::{
    client::{Client, ClientBuilder, ConnectError},
    server::{DynAccessControl, RelayConfig, Server, ServerConfig, clients::Clients},
    tls::{CaTlsConfig, default_provider},
};
use tokio::net::TcpStream;
use tokio_websockets::{Message, WebSocketStream};

use super::memrelay::{self, FromRelay};

pub struct TcpRelay {
    pub server: Option<Server>,
    pub url: RelayUrl,
    pub addr: std::net::SocketAddr,
}

impl TcpRelay {
    pub async fn spawn(access: Arc<dyn DynAccessControl>) -> Self {
        let mut relay = RelayConfig::new((Ipv4Addr::LOCALHOST, 0));
        relay.access = access;
        let mut config = ServerConfig::default();
        config.relay = Some(relay);
        let server = Server::spawn(config).await.expect("relay server spawns on loopback");
        let addr = server.http_addr().expect("http addr");
        let url: RelayUrl = format!("http://{addr}").parse().unwrap();
        Self { server: Some(server), url, addr }
    }

    pub fn clients(&self) -> Clients {
        self.server.as_ref().unwrap().relay_service().expect("relay configured").clients().clone()
    }

    pub async fn connect_real(&self, sk: &SecretKey) -> Result<Client, ConnectError> {
        let tls = CaTlsConfig::default().client_config(default_provider()).expect("client config");
        ClientBuilder::new(self.url.clone(), sk.clone(), DnsResolver::new()).tls_client_config(tls).connect().await
    }

    pub async fn shutdown(&mut self) {
        if let Some(s) = self.server.take() {
            let _ = s.shutdown().await;
        }
    }
}

/// Steps of a raw client's life at which it can abort.
#[derive(Debug, Clone, Copy, PartialEq, Eq, Hash, serde::Serialize, serde::Deserialize)]
pub enum AbortAt {
    AfterTcpConnect,
    AfterUpgrade,
    AfterChallenge,
    AfterAuthSent,
    AfterConfirm,
    AfterPing,
    Never,
}

pub const ABORTS: [AbortAt; 7] = [AbortAt::AfterTcpConnect, AbortAt::AfterUpgrade, AbortAt::AfterChallenge, AbortAt::AfterAuthSent, AbortAt::AfterConfirm, AbortAt::AfterPing, AbortAt::Never];

pub struct RawClient {
    pub ws: WebSocketStream<TcpStream>,
}

pub enum RawOutcome {
    Aborted,
    Denied(String),
    Failed(String),
    Connected(RawClient),
}

#[allow(deprecated)]
fn abort(stream: TcpStream, rst: bool) {
    if rst {
        let _ = stream.set_linger(Some(Duration::ZERO));
    }
    drop(stream);
}

/// Connects with a hand-driven websocket and handshake; aborts at `at` (FIN or RST).
pub async fn raw_connect(addr: std::net::SocketAddr, key: u8, at: AbortAt, rst: bool) -> RawOutcome {
    raw_connect_opts(addr, key, at, rst, true).await
}

/// As [`raw_connect`]; with `ping == false` the client returns as soon as it read the confirmation.
pub async fn raw_connect_opts(addr: std::net::SocketAddr, key: u8, at: AbortAt, rst: bool, ping: bool) -> RawOutcome {
    let stream = match TcpStream::connect(addr).await {
        Ok(s) => s,
        Err(e) => return RawOutcome::Failed(format!("tcp connect: {e}")),
    };
    let _ = stream.set_nodelay(true);
    if at == AbortAt::AfterTcpConnect {
        abort(stream, rst);
        return RawOutcome::Aborted;
    }
    let uri = format!("ws://{addr}/relay");
    let builder = tokio_websockets::ClientBuilder::new()
        .uri(&uri)
        .expect("uri")
        .add_header(http::header::SEC_WEBSOCKET_PROTOCOL, http::HeaderValue::from_static("iroh-relay-v2"))
        .expect("header");
    let (mut ws, _resp) = match builder.connect_on(stream).await {
        Ok(x) => x,
        Err(e) => return RawOutcome::Failed(format!("upgrade: {e}")),
    };
    macro_rules! maybe_abort {
        ($step:expr) => {
            if at == $step {
                if rst {
                    // best effort: closing without a close frame; RST needs the raw socket, which
                    // tokio-websockets owns, so FIN and RST coincide past the upgrade.
                }
                drop(ws);
                return RawOutcome::Aborted;
            }
        };
    }
    maybe_abort!(AbortAt::AfterUpgrade);
    let sk = ed25519_dalek::SigningKey::from_bytes(&memrelay::pool_key(key).to_bytes());
    async fn next(ws: &mut WebSocketStream<TcpStream>) -> Option<FromRelay> {
        match tokio::time::timeout(Duration::from_secs(20), ws.next()).await {
            Ok(Some(Ok(m))) => Some(memrelay::decode_from_relay(&m.into_payload())),
            _ => None,
        }
    }
    let mut frame = next(&mut ws).await;
    if let Some(FromRelay::Challenge(ch)) = frame {
        maybe_abort!(AbortAt::AfterChallenge);
        let sig = sk.sign(&memrelay::challenge_message(&ch)).to_bytes();
        let auth = memrelay::encode_client_auth(&sk.verifying_key().to_bytes(), &sig);
        if ws.send(Message::binary(auth)).await.is_err() {
            return RawOutcome::Failed("send auth".into());
        }
        maybe_abort!(AbortAt::AfterAuthSent);
        frame = next(&mut ws).await;
    }
    match frame {
        Some(FromRelay::Confirms) => {}
        Some(FromRelay::Denies(r)) => return RawOutcome::Denied(r),
        other => return RawOutcome::Failed(format!("handshake ended with {other:?}")),
    }
    maybe_abort!(AbortAt::AfterConfirm);
    if !ping {
        return RawOutcome::Connected(RawClient { ws });
    }
    if ws.send(Message::binary(memrelay::encode_ping([9; 8]))).await.is_err() {
        return RawOutcome::Failed("send ping".into());
    }
    loop {
        match next(&mut ws).await {
            Some(FromRelay::Pong(_)) => break,
            Some(_) => continue,
            None => return RawOutcome::Failed("no pong".into()),
        }
    }
    maybe_abort!(AbortAt::AfterPing);
    RawOutcome::Connected(RawClient { ws })
}

impl RawClient {
    pub async fn send(&mut self, frame: Bytes) -> bool {
        self.ws.send(Message::binary(frame)).await.is_ok()
    }
    /// Next relay frame within `wait`; `Err(true)` = stream ended, `Err(false)` = nothing yet.
    pub async fn recv(&mut self, wait: Duration) -> Result<FromRelay, bool> {
        match tokio::time::timeout(wait, self.ws.next()).await {
            Err(_) => Err(false),
            Ok(None) | Ok(Some(Err(_))) => Err(true),
            Ok(Some(Ok(m))) => {
                if m.is_close() {
                    return Err(true);
                }
                Ok(memrelay::decode_from_relay(&m.into_payload()))
            }
        }
    }
}

/// A multi-thread runtime with the real clock for loopback scenarios.
pub fn net_rt<F: Future>(f: F) -> F::Output {
    let rt = tokio::runtime::Builder::new_multi_thread().worker_threads(2).enable_all().build().expect("runtime");
    let out = rt.block_on(f);
    rt.shutdown_timeout(Duration::from_millis(500));
    out
}
