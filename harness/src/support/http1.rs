//! A tiny blocking HTTP/1.1 client over `std::net::TcpStream`, written by hand so that the
//! harness controls every byte of the request and sees every byte of the response.
//!
//! Only what the relay checks need: send raw request bytes, read one response head, read a
//! body delimited by `Content-Length` (no chunked decoding; the relay never chunks the
//! responses we look at, and a chunked response is reported as such).
//!
//! Real-time bounds here are *detectors* only (30 s for a loopback round trip that takes well
//! under a millisecond); on expiry the process exits with code 2 (inconclusive), never with a
//! violation.

use std::{
    io::{Read, Write},
    net::{SocketAddr, TcpStream},
    time::Duration,
};

pub const IO_BOUND: Duration = Duration::from_secs(30);

/// One parsed response.
#[derive(Debug, Clone)]
pub struct Response {
    pub status: u16,
    pub reason: String,
    /// (lower-cased name, value with optional whitespace trimmed), in wire order.
    pub headers: Vec<(String, Vec<u8>)>,
    pub body: Vec<u8>,
}

impl Response {
    /// All values of a header (name compared case-insensitively).
    pub fn all(&self, name: &str) -> Vec<&[u8]> {
        let name = name.to_ascii_lowercase();
        self.headers
            .iter()
            .filter(|(n, _)| *n == name)
            .map(|(_, v)| v.as_slice())
            .collect()
    }
}

#[derive(Debug)]
pub enum HttpError {
    /// The peer closed the connection before a full response head arrived.
    Closed { got: Vec<u8> },
    /// Something that is not an HTTP/1.1 response head.
    Malformed(String),
    Io(std::io::Error),
}

pub struct Conn {
    stream: TcpStream,
    /// Bytes read from the socket and not yet consumed.
    buf: Vec<u8>,
}

fn is_timeout(e: &std::io::Error) -> bool {
    matches!(
        e.kind(),
        std::io::ErrorKind::WouldBlock | std::io::ErrorKind::TimedOut
    )
}

fn inconclusive(what: &str) -> ! {
    eprintln!("INCONCLUSIVE: {what} exceeded the {IO_BOUND:?} detector bound on loopback");
    std::process::exit(2)
}

pub fn trim_ows(mut v: &[u8]) -> &[u8] {
    while let [b' ' | b'\t', rest @ ..] = v {
        v = rest;
    }
    while let [rest @ .., b' ' | b'\t'] = v {
        v = rest;
    }
    v
}

impl Conn {
    pub fn connect(addr: SocketAddr) -> Self {
        let stream = match TcpStream::connect_timeout(&addr, IO_BOUND) {
            Ok(s) => s,
            Err(e) if is_timeout(&e) => inconclusive("tcp connect"),
            Err(e) => {
                eprintln!("INCONCLUSIVE: cannot connect to the server under test at {addr}: {e}");
                std::process::exit(2)
            }
        };
        stream.set_nodelay(true).ok();
        stream.set_read_timeout(Some(IO_BOUND)).ok();
        stream.set_write_timeout(Some(IO_BOUND)).ok();
        Conn {
            stream,
            buf: Vec::new(),
        }
    }

    pub fn send(&mut self, bytes: &[u8]) -> Result<(), HttpError> {
        match self.stream.write_all(bytes) {
            Ok(()) => Ok(()),
            Err(e) if is_timeout(&e) => inconclusive("tcp write"),
            Err(e) => Err(HttpError::Io(e)),
        }
    }

    /// Reads more bytes; Ok(false) on EOF.
    fn fill(&mut self) -> Result<bool, HttpError> {
        let mut tmp = [0u8; 4096];
        match self.stream.read(&mut tmp) {
            Ok(0) => Ok(false),
            Ok(n) => {
                self.buf.extend_from_slice(&tmp[..n]);
                Ok(true)
            }
            Err(e) if is_timeout(&e) => inconclusive("waiting for an HTTP response"),
            Err(e) => Err(HttpError::Io(e)),
        }
    }

    /// Reads one response (head, and body if `Content-Length` says so).
    pub fn read_response(&mut self) -> Result<Response, HttpError> {
        let head_end = loop {
            if let Some(p) = self.buf.windows(4).position(|w| w == b"\r\n\r\n") {
                break p;
            }
            if self.buf.len() > 64 * 1024 {
                return Err(HttpError::Malformed("response head larger than 64 KiB".into()));
            }
            if !self.fill()? {
                return Err(HttpError::Closed {
                    got: self.buf.clone(),
                });
            }
        };
        let head: Vec<u8> = self.buf.drain(..head_end + 4).collect();
        let head = &head[..head_end];
        let mut lines = head.split(|b| *b == b'\n').map(|l| l.strip_suffix(b"\r").unwrap_or(l));
        let status_line = lines.next().unwrap_or(b"");
        let sl = String::from_utf8_lossy(status_line).to_string();
        let mut parts = sl.splitn(3, ' ');
        let (version, code, reason) = (
            parts.next().unwrap_or(""),
            parts.next().unwrap_or(""),
            parts.next().unwrap_or(""),
        );
        if version != "HTTP/1.1" && version != "HTTP/1.0" {
            return Err(HttpError::Malformed(format!("status line {sl:?}")));
        }
        let status: u16 = code
            .parse()
            .map_err(|_| HttpError::Malformed(format!("status line {sl:?}")))?;
        let mut headers = Vec::new();
        for l in lines {
            let Some(colon) = l.iter().position(|b| *b == b':') else {
                return Err(HttpError::Malformed(format!(
                    "header line without colon: {:?}",
                    String::from_utf8_lossy(l)
                )));
            };
            let name = String::from_utf8_lossy(&l[..colon]).to_ascii_lowercase();
            headers.push((name, trim_ows(&l[colon + 1..]).to_vec()));
        }
        let mut resp = Response {
            status,
            reason: reason.to_string(),
            headers,
            body: Vec::new(),
        };
        let bodyless = (100..200).contains(&status) || status == 204 || status == 304;
        if !bodyless {
            if !resp.all("transfer-encoding").is_empty() {
                return Err(HttpError::Malformed(
                    "chunked response (not expected from the relay)".into(),
                ));
            }
            if let Some(cl) = resp.all("content-length").first() {
                let n: usize = std::str::from_utf8(cl)
                    .ok()
                    .and_then(|s| s.parse().ok())
                    .ok_or_else(|| HttpError::Malformed("bad content-length".into()))?;
                while self.buf.len() < n {
                    if !self.fill()? {
                        return Err(HttpError::Closed {
                            got: self.buf.clone(),
                        });
                    }
                }
                resp.body = self.buf.drain(..n).collect();
            }
        }
        Ok(resp)
    }

    /// Bytes received after the last parsed response (e.g. data following a 101).
    pub fn leftover(&self) -> &[u8] {
        &self.buf
    }

    pub fn into_parts(self) -> (TcpStream, Vec<u8>) {
        (self.stream, self.buf)
    }
}
