//! Scripted `iroh_dns::dns::Resolver`s for checks that must not touch real DNS.

use std::{
    net::{Ipv4Addr, Ipv6Addr},
    sync::Arc,
    time::Duration,
};

use iroh_dns::dns::{BoxIter, DnsError, DnsResolver, Resolver, TxtRecordData};
use n0_future::boxed::BoxFuture;

/// What one lookup (A or AAAA) does.
#[derive(Debug, Clone)]
pub enum LookupScript<A> {
    /// Completes after `delay` (virtual time) with these addresses (possibly none).
    Answer { delay: Duration, addrs: Vec<A> },
    /// Completes after `delay` with an error.
    Fail { delay: Duration },
    /// Never completes (the caller's DNS timeout ends it).
    Hang,
}

/// A resolver whose A and AAAA lookups follow a script; `on_lookup` is told when each
/// lookup *finishes* (family: false = v4, true = v6) so a harness can log instants.
#[derive(Clone)]
pub struct ScriptedResolver {
    pub v4: LookupScript<Ipv4Addr>,
    pub v6: LookupScript<Ipv6Addr>,
    pub on_finish: Option<Arc<dyn Fn(bool) + Send + Sync>>,
}

impl std::fmt::Debug for ScriptedResolver {
    fn fmt(&self, f: &mut std::fmt::Formatter<'_>) -> std::fmt::Result {
        f.debug_struct("ScriptedResolver")
            .field("v4", &self.v4)
            .field("v6", &self.v6)
            .finish()
    }
}

impl ScriptedResolver {
    /// A resolver that answers nothing (for URLs with literal IP hosts).
    pub fn empty() -> Self {
        ScriptedResolver {
            v4: LookupScript::Answer {
                delay: Duration::ZERO,
                addrs: vec![],
            },
            v6: LookupScript::Answer {
                delay: Duration::ZERO,
                addrs: vec![],
            },
            on_finish: None,
        }
    }

    pub fn into_dns_resolver(self) -> DnsResolver {
        DnsResolver::custom(self)
    }
}

fn run_script<A: Send + 'static>(
    script: LookupScript<A>,
    is_v6: bool,
    on_finish: Option<Arc<dyn Fn(bool) + Send + Sync>>,
) -> BoxFuture<Result<BoxIter<A>, DnsError>> {
    Box::pin(async move {
        match script {
            LookupScript::Answer { delay, addrs } => {
                if !delay.is_zero() {
                    tokio::time::sleep(delay).await;
                }
                if let Some(f) = &on_finish {
                    f(is_v6);
                }
                let it: BoxIter<A> = Box::new(addrs.into_iter());
                Ok(it)
            }
            LookupScript::Fail { delay } => {
                if !delay.is_zero() {
                    tokio::time::sleep(delay).await;
                }
                if let Some(f) = &on_finish {
                    f(is_v6);
                }
                Err(n0_error::e!(DnsError::NoResponse))
            }
            LookupScript::Hang => std::future::pending().await,
        }
    })
}

impl Resolver for ScriptedResolver {
    fn lookup_ipv4(&self, _host: String) -> BoxFuture<Result<BoxIter<Ipv4Addr>, DnsError>> {
        run_script(self.v4.clone(), false, self.on_finish.clone())
    }

    fn lookup_ipv6(&self, _host: String) -> BoxFuture<Result<BoxIter<Ipv6Addr>, DnsError>> {
        run_script(self.v6.clone(), true, self.on_finish.clone())
    }

    fn lookup_txt(&self, _host: String) -> BoxFuture<Result<BoxIter<TxtRecordData>, DnsError>> {
        Box::pin(async {
            let it: BoxIter<TxtRecordData> = Box::new(std::iter::empty());
            Ok(it)
        })
    }

    fn clear_cache(&self) {}

    fn reset(&self) -> Box<dyn Resolver> {
        Box::new(self.clone())
    }
}
