//! A real `iroh_relay::server::Server` on loopback, on its own small tokio runtime, for
//! black-box checks that talk to it with hand-written bytes from plain threads.
//!
//! One server per check run (the endpoints under test are stateless); `shutdown` must be
//! called at the end of the run.

use std::{
    net::{Ipv4Addr, SocketAddr},
    time::Duration,
};

use iroh_relay::server::{CertConfig, RelayConfig, Server, ServerConfig, TlsConfig};

pub struct RelayUnderTest {
    rt: tokio::runtime::Runtime,
    server: Server,
    /// Plain-HTTP address (the relay's own HTTP server without TLS; the stand-alone
    /// captive-portal service when the relay serves TLS).
    pub http_addr: SocketAddr,
    /// HTTPS address when TLS is configured.
    pub https_addr: Option<SocketAddr>,
}

impl RelayUnderTest {
    /// `tls = false`: all HTTP services (including `/relay` and `/generate_204`) on one
    /// plain-HTTP listener.  `tls = true`: relay over HTTPS with a self-signed certificate;
    /// the plain-HTTP listener then only runs the captive-portal service.
    pub fn spawn(tls: bool) -> Self {
        let rt = tokio::runtime::Builder::new_multi_thread()
            .worker_threads(2)
            .thread_name("relay-under-test")
            .enable_all()
            .build()
            .expect("runtime");
        let server = rt.block_on(async {
            let mut relay = RelayConfig::new((Ipv4Addr::LOCALHOST, 0));
            relay.key_cache_capacity = Some(1024);
            if tls {
                let (_certs, server_config) =
                    iroh_relay::server::testing::self_signed_tls_certs_and_config();
                relay.tls = Some(TlsConfig::new(
                    (Ipv4Addr::LOCALHOST, 0),
                    CertConfig::Manual { server_config },
                ));
            }
            let mut config = ServerConfig::default();
            config.relay = Some(relay);
            match Server::spawn(config).await {
                Ok(s) => s,
                Err(e) => {
                    eprintln!("INCONCLUSIVE: cannot spawn the relay server under test: {e:?}");
                    std::process::exit(2)
                }
            }
        });
        let http_addr = server.http_addr().expect("http address");
        let https_addr = server.https_addr();
        RelayUnderTest {
            rt,
            server,
            http_addr,
            https_addr,
        }
    }

    pub fn runtime(&self) -> &tokio::runtime::Runtime {
        &self.rt
    }

    /// Graceful shutdown; the runtime is torn down afterwards so nothing outlives the run.
    pub fn shutdown(self) {
        let RelayUnderTest { rt, server, .. } = self;
        let res = rt.block_on(async {
            tokio::time::timeout(Duration::from_secs(60), server.shutdown()).await
        });
        if res.is_err() {
            eprintln!("INCONCLUSIVE: relay server under test did not shut down within 60 s");
            std::process::exit(2);
        }
        rt.shutdown_timeout(Duration::from_secs(5));
    }
}
