//! Helpers for end-to-end checks with real `iroh::Endpoint`s over loopback (relay disabled).

use std::{future::Future, net::Ipv4Addr, time::Duration};

use iroh::{
    Endpoint, SecretKey,
    endpoint::{Builder, presets},
};

/// Runtime for one e2e case: current-thread (`workers <= 1`) or multi-thread, real clock.
pub fn run<F: Future>(workers: usize, f: F) -> F::Output {
    let rt = if workers <= 1 {
        tokio::runtime::Builder::new_current_thread()
            .enable_all()
            .build()
            .expect("runtime")
    } else {
        tokio::runtime::Builder::new_multi_thread()
            .worker_threads(workers)
            .enable_all()
            .build()
            .expect("runtime")
    };
    let out = rt.block_on(f);
    rt.shutdown_timeout(Duration::from_millis(500));
    out
}

/// Deterministic secret key number `i` (the pool of identities used by the e2e checks).
pub fn key(i: u8) -> SecretKey {
    let mut b = [0u8; 32];
    for (j, x) in b.iter_mut().enumerate() {
        *x = (j as u8).wrapping_mul(31).wrapping_add(i.wrapping_mul(97)).wrapping_add(7);
    }
    SecretKey::from_bytes(&b)
}

/// Builder for an endpoint bound to 127.0.0.1 only, no relay, no address lookup.
pub fn builder() -> Builder {
    Endpoint::builder(presets::Minimal)
        .clear_ip_transports()
        .bind_addr((Ipv4Addr::LOCALHOST, 0))
        .expect("loopback bind addr")
}

/// Binds a loopback endpoint; a bind failure is a harness problem (exit 2), never a verdict.
pub async fn bind(b: Builder) -> Endpoint {
    match within(180, "endpoint bind", b.bind()).await {
        Ok(ep) => ep,
        Err(e) => {
            eprintln!("HARNESS: cannot bind loopback endpoint: {e:#}");
            std::process::exit(2);
        }
    }
}

/// Detector bound: the future is expected to finish orders of magnitude faster; expiry means
/// the run is inconclusive (exit 2), it is never turned into a verdict.
pub async fn within<T>(secs: u64, what: &str, f: impl Future<Output = T>) -> T {
    match tokio::time::timeout(Duration::from_secs(secs), f).await {
        Ok(v) => v,
        Err(_) => {
            eprintln!("HARNESS: '{what}' did not finish within {secs}s; inconclusive");
            std::process::exit(2);
        }
    }
}

/// `Some(v)` if the future finished within `ms` milliseconds (negative-dial detector:
/// "no result by then").
pub async fn by<T>(ms: u64, f: impl Future<Output = T>) -> Option<T> {
    tokio::time::timeout(Duration::from_millis(ms), f).await.ok()
}
